#!/bin/bash
# tools/seed_confirm.sh <seed-dir-with-patch.diff+demo.diff> <demo test filter>
# confirms: clean+demo passes; patch+demo fails; patch alone passes the pinned suite (104)
sd=$(realpath "$1"); filt="$2"
d=$(mktemp -d /tmp/seedc-XXXXXX)
T=/var/tmp/gufo-verif-cache
rsync -a --exclude target --exclude .git /repo/ $d/clean/
cp -r $d/clean $d/patched
(cd $d/clean && git apply "$sd/demo.diff") || { echo "demo.diff does not apply on clean"; }
(cd $d/patched && git apply "$sd/patch.diff") || { echo "patch.diff does not apply"; rm -rf $d; exit 3; }
[ -n "$PYLINK" ] && export RUSTFLAGS="-L /root/.pyenv/versions/3.11.7/lib -C link-arg=-lpython3.11" LD_LIBRARY_PATH=/root/.pyenv/versions/3.11.7/lib
echo "== patch alone: pinned suite"; (cd $d/patched && CARGO_TARGET_DIR=$T/seed-target-b cargo test --workspace --no-fail-fast --offline 2>&1 | grep -E "^test result|^error" | head -3)
(cd $d/patched && git apply "$sd/demo.diff") || echo "demo.diff does not apply on patched"
echo "== clean + demo ($filt)"; (cd $d/clean && touch src/lib.rs && CARGO_TARGET_DIR=$T/seed-target-a cargo test --offline --lib "$filt" 2>&1 | grep -E "^test result|^error|panicked" | head -5)
echo "== patch + demo ($filt)"; (cd $d/patched && touch src/lib.rs && CARGO_TARGET_DIR=$T/seed-target-b cargo test --offline --lib "$filt" 2>&1 | grep -E "^test result|^error|panicked" | head -8)
rm -rf $d
