#!/usr/bin/env python3
"""Build the dependencies of the real crate once into the shared Kani / test target dirs."""
import os, sys, tempfile, shutil
sys.path.insert(0, os.path.dirname(os.path.abspath(__file__)))
import kanirun
work = tempfile.mkdtemp(prefix='verif-warm-')
try:
    scratch = kanirun.make_scratch(work)
    kanirun.weave(scratch, ['canary.rs'])
    rc, out, wall = kanirun.run_kani(scratch, ['verif_canary_must_fail'], 1200)
    print("kani warm-up: rc=%s %.0fs" % (rc, wall))
    rc, out = kanirun.sh(['cargo', 'test', '--offline', '--lib', '--no-run'], cwd=scratch,
                         env={'CARGO_TARGET_DIR': os.path.join(kanirun.CACHE, 'test-target')}, timeout=1200)
    print("cargo test warm-up: rc=%s" % rc)
finally:
    shutil.rmtree(work, ignore_errors=True)
