#!/bin/bash
# dev helper: extract a unit and run Verus on it, printing errors concisely
cd /verif
out=$(python3 tools/vx.py "$1" /tmp/vx-out 2>&1 | head -2)
case "$out" in *LOST-ANCHOR*|*Traceback*|*Error*) echo "$out"; exit 2;; esac
cd /tmp/vx-out && verus "$1".rs --multiple-errors 50 --rlimit 100 --num-threads 8 2>&1 | grep -v '^\s*$' | head -${2:-80}
