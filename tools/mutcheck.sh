#!/bin/bash
# dev helper: tools/mutcheck.sh <patch.diff> <PROP> [more props]  — run checks against a scratch copy of /repo with the patch applied
set -e
patch=$(realpath "$1"); shift
d=$(mktemp -d /tmp/mut-XXXXXX)
rsync -a --exclude target --exclude .git ${MUT_BASE:-/repo}/ $d/
(cd $d && patch -p1 -s < "$patch")
for p in "$@"; do
  echo "--- $p"
  VERIF_EVIDENCE_DIR=$d/.evidence VERIF_REPO=$d /verif/check $p ${MUT_ARGS:---no-finder} 2>&1 | grep -v "^WARNING conda" | tail -${MUT_TAIL:-8} || true
done
rm -rf $d
