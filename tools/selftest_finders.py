#!/usr/bin/env python3
"""Every native finder must COMPILE and PASS on the unchanged tree (a finder failing on clean code would turn a tool error
into a false alarm; a finder that does not compile can never find anything)."""
import sys, tempfile, shutil, tomllib, os, re
sys.path.insert(0, os.path.dirname(os.path.abspath(__file__)))
import kanirun
props = tomllib.load(open(os.path.join(kanirun.HERE, 'contracts', 'properties.toml'), 'rb'))
# test names are used as cargo-test filters (substring match): no name may contain another one
import glob
names = []
for f in glob.glob(os.path.join(kanirun.HERE, 'contracts', 'kani', '*.rs')):
    names += re.findall(r'fn ((?:finder|exhaustive|replay|demo)_\w+)\(', open(f).read())
clash = [(a, b) for a in names for b in names if a != b and a in b]
if clash:
    print("test-name clash (cargo filter would run both):", clash)
    sys.exit(1)
w = tempfile.mkdtemp(prefix='verif-ft-')
bad = 0
try:
    s = kanirun.make_scratch(w)
    seen = set()
    for pid, cfg in props.items():
        for f in cfg.get('finders', []):
            if not f.get('native') or f['replay'] in seen:
                continue
            seen.add(f['replay'])
            kanirun.weave(s, f.get('files', [f['file']]))
            env = {'CARGO_TARGET_DIR': os.path.join(kanirun.CACHE, 'test-target'), 'RUST_BACKTRACE': '0'}
            rc, out = kanirun.sh(['cargo', 'test', '--offline', '--lib', f['replay'], '--', '--nocapture'], cwd=s, env=env, timeout=1200)
            ok = rc == 0 and re.search(r'test result: ok\. 1 passed', out) is not None
            print("%s %s: %s" % (pid, f['replay'], 'ok' if ok else 'NOT OK'))
            if not ok:
                bad += 1
                print(out[-1500:])
finally:
    shutil.rmtree(w, ignore_errors=True)
sys.exit(1 if bad else 0)
