#!/usr/bin/env python3
"""runner — decide one property: extract, weave, run Verus / Kani, map failures to named
obligations, search for a counterexample, write evidence, print the verdict.

exit 0  every obligation owned by the property was discharged (known findings are printed)
exit 1  at least one owned obligation failed:  VIOLATION property=<id> replay=<path> [no-failing-input-found]
exit 2  inconclusive: lost anchor, unsupported construct, resource limit, tool crash (never an alarm)
"""
import os
import re
import sys
import json
import time
import shutil
import hashlib
import tomllib
import argparse
import tempfile
import subprocess

HERE = os.path.dirname(os.path.dirname(os.path.abspath(__file__)))
sys.path.insert(0, os.path.join(HERE, 'tools'))
import vx  # noqa: E402

REPO = os.environ.get("VERIF_REPO", "/repo")
VERUS_RLIMIT = os.environ.get("VERIF_VERUS_RLIMIT", "100")

VERIF_ERR_PATTERNS = [
    (r'^precondition not met', 'pre'),
    (r'^precondition not satisfied', 'pre'),
    (r'^possible arithmetic underflow/overflow', 'overflow'),
    (r'^possible bit shift underflow/overflow', 'shift'),
    (r'^possible division by zero', 'divzero'),
    (r'^postcondition not satisfied', 'post'),
    (r'^assertion failed', 'assert'),
    (r'^invariant not satisfied', 'inv'),
    (r'^loop invariant not satisfied', 'inv'),
    (r'^decreases not satisfied', 'term'),
    (r'^requires not satisfied', 'assert'),
    (r'^unreachable', 'unreachable'),
    (r'^cannot show invariant', 'inv'),
    (r'^could not show termination', 'term'),
    (r'^assertion failure', 'assert'),
    (r'^failed precondition', 'pre'),
    (r'^possible truncation', 'overflow'),
    (r'^loop ensures not satisfied', 'inv'),
    (r'^break .* not satisfied', 'inv'),
]
INCONCLUSIVE_PATTERNS = [r'[Rr]esource limit', r'rlimit', r'timed out', r'Z3 .*crash', r'solver.*(killed|died)']


class Inconclusive(Exception):
    pass


def sh(cmd, **kw):
    return subprocess.run(cmd, stdout=subprocess.PIPE, stderr=subprocess.PIPE, text=True, **kw)


def load_props():
    with open(os.path.join(HERE, 'contracts', 'properties.toml'), 'rb') as f:
        return tomllib.load(f)


def load_known():
    p = os.path.join(HERE, 'known_findings.txt')
    findings = []
    if os.path.exists(p):
        for ln in open(p):
            ln = ln.strip()
            if ln.startswith('finding:'):
                m = re.match(r'finding:\s+property=(\S+)\s+obligation=(\S+)\s+(.*)', ln)
                if m:
                    findings.append(dict(prop=m.group(1), obligation=m.group(2), what=m.group(3)))
    return findings


# ----------------------------------------------------------------------------------------
# canary: the verifier must reject a false claim
# ----------------------------------------------------------------------------------------
def verus_canary(work):
    p = os.path.join(work, 'canary.rs')
    with open(p, 'w') as f:
        f.write("use vstd::prelude::*;\nverus! {\nfn canary(x: u8) -> (r: u8) ensures r == x + 1 { x }\n"
                "proof fn canary2() { assert(false); }\n}\nfn main() {}\n")
    r = sh(['verus', p, '--output-json'], cwd=work)
    try:
        j = json.loads(r.stdout)
        vr = j['verification-results']
        ok = (not vr['success']) and vr['errors'] == 2
    except Exception:
        ok = False
    if not ok:
        raise Inconclusive("canary: Verus accepted a false claim or did not run (%s)" % (r.stderr[-400:]))
    return dict(guard='verus-canary', result='rejected-false-claims', errors=2)


# ----------------------------------------------------------------------------------------
# Verus unit
# ----------------------------------------------------------------------------------------
def origin_str(o):
    if o[0] == 'src':
        return "%s:%d" % (o[1], o[2])
    if o[0] in ('shim', 'spec'):
        return "%s:%d" % (o[1], o[2])
    if o[0] == 'ovl':
        return "overlay:%s" % o[1]
    return o[0]


def run_verus_unit(unit, work, seed=None, extra_smt=None):
    # dev sweeps (tools/harmless_sweep.py) run many properties against ONE scratch tree: the verdict of a unit does not depend on
    # the property, so it is computed once per tree. Never set by the registered commands.
    cdir = os.environ.get('VERIF_DEV_UNIT_CACHE')
    if cdir and seed is None:
        import pickle
        cp = os.path.join(cdir, unit + '.pkl')
        if os.path.exists(cp):
            with open(cp, 'rb') as fh:
                return pickle.load(fh)
        r = _run_verus_unit(unit, work, seed)
        os.makedirs(cdir, exist_ok=True)
        with open(cp + '.tmp', 'wb') as fh:
            pickle.dump(r, fh)
        os.replace(cp + '.tmp', cp)
        return r
    return _run_verus_unit(unit, work, seed)


def _run_verus_unit(unit, work, seed=None):
    # a function whose body uses a construct Verus cannot take is retried as external_body (contract kept, body
    # undecided -> only a natively replayed counterexample can raise an alarm for it)
    force = set()
    dropb = set()
    for attempt in range(6):
        r = run_verus_unit_once(unit, work, seed, force, dropb=dropb)
        new = set(r.pop('unsupported_fns', [])) - force
        newd = set(r.pop('uncompilable_fns', [])) - dropb
        if not new and not newd:
            break
        force |= new
        dropb |= newd
    if any(t.startswith('resource:') and 'time limit' not in t for t in r.get('tool_errors', [])):
        # a function ran out of solver budget (never on the unchanged tree): one retry with four times the budget, so that
        # a genuinely failing obligation is reported as such instead of as "inconclusive"
        r2 = run_verus_unit_once(unit, work, seed, force, rlimit=str(int(float(VERUS_RLIMIT) * 4)), dropb=dropb)
        r2.pop('unsupported_fns', None)
        r2.pop('uncompilable_fns', None)
        r2['rlimit_retry'] = True
        rf = set(r2.pop('resource_fns', [])) - force
        res = [t for t in r2.get('tool_errors', []) if t.startswith('resource:') and 'time limit' not in t]
        if os.environ.get('VERIF_DEBUG_RLIMIT'):
            print('  [debug] rlimit retry: fns', sorted(rf), 'resource errors', len(res), 'tool errors', r2.get('tool_errors', []))
        if rf and res and len(res) == len(r2.get('tool_errors', [])) and len(rf) <= 3:
            # still out of budget, and the budget ran out inside known source functions (typically a caller of a new helper that
            # has no contract: the solver searches for a proof that cannot exist): those bodies are skipped like any body the
            # verifier cannot take -- contract kept for the callers, the function UNDECIDED (only a natively replayed counterexample
            # may raise an alarm, a covering finder may stand in as a labelled bounded check, otherwise exit 2). Never on the unchanged tree.
            r3 = run_verus_unit_once(unit, work, seed, force | rf, dropb=dropb)
            r3.pop('unsupported_fns', None)
            r3.pop('uncompilable_fns', None)
            r3.pop('resource_fns', None)
            if not any(t.startswith('resource:') for t in r3.get('tool_errors', [])):
                r3['rlimit_retry'] = True
                r3['rlimit_skipped_bodies'] = sorted(rf)
                return r3
        return r2
    r.pop('resource_fns', None)
    return r


def run_verus_unit_once(unit, work, seed, force, rlimit=None, dropb=None):
    t0 = time.time()
    try:
        out_rs, meta = vx.build_unit(unit, work, force_external=force, drop_body=dropb)
    except vx.LostAnchor as e:
        # the contracts no longer find the code they are written for: the unit is unverifiable (undecided); the caller
        # tries the native finders of the property and otherwise reports Inconclusive (exit 2)
        return dict(unit=unit, verified=0, errors=0, failures=[], tool_errors=["lost anchor: %s" % e], fstats=[], meta=None,
                    wall_s=round(time.time() - t0, 2), smt_ms=0, unsupported_fns=[])
    cmd = ['verus', out_rs, '--output-json', '--time-expanded', '--multiple-errors', '50',
           '--error-format=json', '--rlimit', rlimit or VERUS_RLIMIT, '--num-threads', '8']
    if seed is not None:
        cmd += ['--smt-option', 'smt.random_seed=%d' % seed]
    # own process group, so that a run that does not come back can be stopped together with its z3 children
    proc = subprocess.Popen(cmd, cwd=work, stdout=subprocess.PIPE, stderr=subprocess.PIPE, text=True, start_new_session=True)
    try:
        so, se = proc.communicate(timeout=int(os.environ.get('VERIF_VERUS_TIMEOUT', '900')))
        r = subprocess.CompletedProcess(cmd, proc.returncode, so, se)
    except subprocess.TimeoutExpired:
        # a solver run that does not come back (seen once with a random seed in the thorough tier): undecided, never an alarm
        try:
            os.killpg(proc.pid, 9)
        except Exception:
            pass
        proc.communicate()
        return dict(unit=unit, verified=0, errors=0, failures=[], tool_errors=["resource: verus did not finish within the time limit"], fstats=[], meta=meta,
                    wall_s=round(time.time() - t0, 2), smt_ms=0, unsupported_fns=[])
    # functions that did not exist when the contracts were written and are still verified: if the verifier crashes (it does on some
    # iterator-adapter bodies instead of refusing them), they are the first suspects and are retried with their bodies skipped
    suspects = [q for q in meta['report'].get('new_functions', []) if q not in force]
    try:
        j = json.loads(r.stdout)
    except Exception:
        if suspects and 'panicked' in (r.stderr or ''):
            return dict(unit=unit, verified=0, errors=0, failures=[], tool_errors=[], fstats=[], meta=meta,
                        wall_s=round(time.time() - t0, 2), smt_ms=0, unsupported_fns=suspects, uncompilable_fns=[])
        raise Inconclusive("verus produced no JSON for unit %s: %s" % (unit, (r.stderr or r.stdout)[-800:]))
    linemap = meta['linemap']
    obl = meta['obligations']
    diags = []
    for ln in r.stderr.splitlines():
        ln = ln.strip()
        if not ln.startswith('{'):
            continue
        try:
            d = json.loads(ln)
        except Exception:
            continue
        if d.get('level') != 'error':
            continue
        if d['message'].startswith('aborting due to'):
            continue
        diags.append(d)
    failures = []
    tool_errors = []
    unsupported_fns = []
    uncompilable_fns = []
    resource_fns = []
    for d in diags:
        msg = d['message']
        kind = None
        for pat, k in VERIF_ERR_PATTERNS:
            if re.search(pat, msg):
                kind = k
                break
        if any(re.search(p, msg) for p in INCONCLUSIVE_PATTERNS):
            tool_errors.append("resource: " + msg)
            for sp in d['spans']:
                idx = sp['line_start'] - 1
                # the span of "function body check" is the signature line (a generated line): the function is the one the next lines belong to
                for li in range(max(idx, 0), min(idx + 40, len(linemap))):
                    if linemap[li].get('fn'):
                        resource_fns.append(linemap[li]['fn'])
                        break
            continue
        if kind is None or d.get('code'):
            # unsupported construct inside a source function: retry with that body skipped
            ufn = None
            for sp in d['spans']:
                idx = sp['line_start'] - 1
                if 0 <= idx < len(linemap) and linemap[idx]['origin'][0] == 'src' and linemap[idx]['fn']:
                    ufn = linemap[idx]['fn']
            if ufn and not d.get('code') and re.search(r'not supported|does not yet support|not yet supported|unsupported|must have a decreases clause', msg) and ufn not in force:
                unsupported_fns.append(ufn)
                continue
            # the proof text woven into a function (hints, loop clauses) no longer compiles against its changed body
            # (renamed local, restructured statement): that body is undecided -> retried as external_body, contract kept
            cfn = None
            for sp in d['spans']:
                idx = sp['line_start'] - 1
                if 0 <= idx < len(linemap) and linemap[idx].get('fn'):
                    cfn = linemap[idx]['fn']
            if cfn and d.get('code') and cfn not in force:
                unsupported_fns.append(cfn)
                continue
            if cfn and d.get('code') and cfn in force and cfn not in (dropb or set()):
                # even with the proof text gone the body does not compile in its extracted form: retried with the body stubbed out
                uncompilable_fns.append(cfn)
                continue
            tool_errors.append("%s @ %s" % (msg, [(s['line_start']) for s in d['spans']][:2]))
            continue
        # spans that lie in the generated unit file (a span inside vstd, e.g. the ensures of std's From::from, has another file)
        unit_file = os.path.basename(out_rs)
        in_unit = lambda sp: os.path.basename(sp.get('file_name', unit_file)) == unit_file
        prim = [s for s in d['spans'] if s['is_primary'] and in_unit(s)]
        sec = [s for s in d['spans'] if not s['is_primary'] and in_unit(s)]
        if not prim and sec:
            # the failed clause belongs to a library trait (vstd): attribute it to the function whose body is the other span
            prim, sec = [sec[0]], sec[1:]

        def info(span):
            idx = span['line_start'] - 1
            if 0 <= idx < len(linemap):
                return linemap[idx]
            return dict(origin=['gen'], fn=None)
        pinf = info(prim[0]) if prim else dict(origin=['gen'], fn=None)
        body_fn = None
        ob_id = None
        owner = None
        fn = pinf['fn']
        where = origin_str(pinf['origin'])
        # postcondition: the failed clause is the primary span (overlay), exit point is secondary
        o = pinf['origin']
        if o[0] == 'ovl' and o[1] in obl:
            ob = obl[o[1]]
            ob_id = o[1]
            owner = ob['owner']
            fn = ob['fn']
            if sec:
                sinf = info(sec[0])
                where = origin_str(sinf['origin'])
                # a clause declared on a trait method fails in the body of an implementation: that body is what may have lost
                # its proof text (harmless change h5-07)
                body_fn = sinf.get('fn')
        elif o[0] == 'src':
            # body obligation → function's safety obligation, refined by kind and source line
            if fn is None:
                tool_errors.append("error outside any function: %s @ %s" % (msg, where))
                continue
            base = obl.get('safety:' + fn)
            owner = base['owner'] if base else None
            ob_id = "%s#%s@%s" % (fn, kind, where)
        else:
            tool_errors.append("error in %s: %s" % (where, msg))
            continue
        failures.append(dict(obligation=ob_id, owner=owner, fn=fn, body_fn=body_fn, kind=kind, where=where, message=msg,
                             rendered=d.get('rendered', '')[:3000]))
    vr = j.get('verification-results', {})
    if vr.get('encountered-vir-error') and not unsupported_fns and not uncompilable_fns:
        tool_errors.append('VIR error')
    if unsupported_fns or uncompilable_fns:
        tool_errors = []
    if not diags and not vr.get('success', False):
        if suspects and 'panicked' in (r.stderr or '') and not unsupported_fns:
            unsupported_fns = suspects
            tool_errors = []
        else:
            tool_errors.append('verus failed without diagnostics: ' + r.stderr[-600:])
    # per function stats
    fstats = []
    try:
        for m in j['times-ms']['smt']['smt-run-module-times']:
            for fb in m.get('function-breakdown', []):
                fstats.append(dict(function=fb['function'], mode=fb.get('mode:'), time_us=fb['time-micros'],
                                   rlimit=fb['rlimit'], success=fb['success']))
    except Exception:
        pass
    return dict(unsupported_fns=unsupported_fns, uncompilable_fns=uncompilable_fns, resource_fns=resource_fns, unit=unit, verified=vr.get('verified', 0), errors=vr.get('errors', 0), failures=failures,
                tool_errors=tool_errors, fstats=fstats, meta=meta, wall_s=round(time.time() - t0, 2),
                smt_ms=j.get('times-ms', {}).get('smt', {}).get('smt-run', 0), cmd=' '.join(cmd[:1] + ['<unit>.rs'] + cmd[2:]),
                rs=out_rs)


def owners_of(owner):
    if owner is None:
        return []
    if isinstance(owner, str):
        return [owner]
    return list(owner)


def obligations_for(prop, unit_result):
    """All obligations owned by prop in this unit: (id, kind, fn, assumed)."""
    res = []
    meta = unit_result['meta']
    for tag, ob in meta['obligations'].items():
        if prop in owners_of(ob['owner']) and ob['kind'] != 'hint':
            res.append(dict(id=tag, kind=ob['kind'], fn=ob['fn'], assumed=ob.get('assumed', False)))
    return res


# ----------------------------------------------------------------------------------------
def sanitize(s):
    return re.sub(r'[^A-Za-z0-9_.@#-]+', '_', s)[:150]


def main():
    ap = argparse.ArgumentParser()
    ap.add_argument('prop')
    ap.add_argument('--tier', default=os.environ.get('VERIF_TIER', 'quick'))
    ap.add_argument('--keep', action='store_true')
    ap.add_argument('--no-finder', action='store_true')
    ap.add_argument('--replay')
    args = ap.parse_args()
    prop = args.prop
    tier = args.tier if args.tier in ('quick', 'thorough') else 'quick'
    seed = int(os.environ.get('VERIF_SEED', '0') or 0)
    t0 = time.time()
    props = load_props()
    if prop not in props:
        print("unknown property %s" % prop)
        return 2
    cfg = props[prop]
    # bounded finders are shared: behind an undecided / failed obligation of a FUNCTION, every registered finder whose patterns name
    # that function may be used, whichever property registered it (own finders first). The fallback for a whole unverifiable unit keeps
    # to the property's own finders (`own_finders`), so that an unrelated finder never speaks for this property.
    own = list(cfg.get('finders', []))
    seen = set(f['name'] for f in own)
    shared = []
    for pid, c in props.items():
        if isinstance(c, dict) and pid != prop:
            for f in c.get('finders', []):
                if f.get('share', True) is False:
                    continue
                if f['name'] not in seen:
                    seen.add(f['name'])
                    shared.append(f)
    cfg = dict(cfg, own_finders=own, finders=own + shared)
    work = tempfile.mkdtemp(prefix='verif-%s-' % prop)
    # VERIF_EVIDENCE_DIR: dev tools that run a check against a deliberately broken tree (mutcheck.sh, seed_sweep.py) send
    # the evidence elsewhere so that /verif/evidence always describes a run on the unchanged tree
    evidence_dir = os.environ.get('VERIF_EVIDENCE_DIR') or os.path.join(HERE, 'evidence')
    evidence_path = os.path.join(evidence_dir, prop + '.json')
    if os.path.exists(evidence_path):
        os.remove(evidence_path)
    code = 2
    try:
        code = decide(prop, cfg, tier, seed, work, args, t0)
    except Inconclusive as e:
        print("INCONCLUSIVE property=%s reason=%s" % (prop, e))
        code = 2
    finally:
        if not args.keep:
            shutil.rmtree(work, ignore_errors=True)
        else:
            print("work dir kept:", work)
    return code


def decide(prop, cfg, tier, seed, work, args, t0):
    import kanirun
    import pyvc_run
    guards = [verus_canary(work)]
    known = [k for k in load_known() if k['prop'] == prop]
    unit_results = []
    unverifiable = []
    for unit in cfg.get('units', []):
        ur = run_verus_unit(unit, work)
        if ur['tool_errors']:
            # The unit cannot be verified at all (e.g. a contract no longer type-checks against the changed code).
            # That is undecided, not a violation — unless a native finder of this property exhibits a failing input on
            # the real code, which is then reported with its replay.
            reason = "unit %s: %s" % (unit, '; '.join(ur['tool_errors'])[:1500])
            hits = []
            if not args.no_finder:
                for f in cfg.get('own_finders', []):
                    if not f.get('native'):
                        continue
                    try:
                        found = kanirun.find_counterexample(prop, dict(fn=f.get('fn_hint', f['match']), where=''), dict(finders=[dict(f, match='.*')]), work)
                    except Exception as e:
                        found = None
                    if found and found.get('replayed_natively'):
                        hits.append((f, found))
            if not hits:
                # this unit is undecided; the other units, Kani / native / Python jobs of the property still run: a violation
                # found there is reported, otherwise the check ends inconclusive (exit 2)
                unverifiable.append(reason)
                continue
            rdir = os.path.join(HERE, 'replays', prop)
            os.makedirs(rdir, exist_ok=True)
            for (f, found) in hits:
                rpath = os.path.join(rdir, sanitize('unit_%s_unverifiable_%s' % (unit, f['name'])) + '.json')
                with open(rpath, 'w') as fh:
                    json.dump(dict(property=prop, obligation='unit:%s#contracts-no-longer-apply' % unit, verifier_output=reason,
                                   counterexample=found), fh, indent=1)
                print("  unit %s could not be verified (%s); native finder %s found a failing input" % (unit, reason[:200], f['name']))
                print("VIOLATION property=%s replay=%s" % (prop, rpath))
            return 1
        unit_results.append(ur)
        if tier == 'thorough':
            # proof stability under different solver seeds: reported, never a verdict
            stab = []
            for k in range(3):
                s2 = (seed * 7919 + 104729 * (k + 1)) % 100000
                u2 = run_verus_unit(unit, work, seed=s2)
                stab.append(dict(seed=s2, verified=u2['verified'], errors=u2['errors'], tool_errors=len(u2['tool_errors'])))
            ur['stability'] = stab

    obligations = []
    failed = []
    foreign = []
    lost = {}   # fn -> [anchors]: proof text that no longer matches the code
    functions = []
    assumptions = []
    rules = []
    solver_ms = 0
    for ur in unit_results:
        solver_ms += ur['smt_ms']
        meta = ur['meta']
        for o in obligations_for(prop, ur):
            o['unit'] = ur['unit']
            o['backend'] = 'assumed-in-verus' if o['assumed'] else 'verus/z3'
            obligations.append(o)
        for fl in ur['failures']:
            if prop in owners_of(fl['owner']):
                failed.append(dict(fl, unit=ur['unit']))
            else:
                foreign.append(dict(obligation=fl['obligation'], owner=fl['owner'], unit=ur['unit'], message=fl['message']))
        for la in meta['report'].get('lost_anchors', []):
            lost.setdefault(la['fn'], []).append("%s anchor %r" % (la['kind'], la['anchor']))
        for f in meta['report']['functions']:
            functions.append(dict(f, unit=ur['unit']))
        for a in meta['report']['assumptions']:
            assumptions.append("[%s] %s: %s — %s" % (ur['unit'], a['where'], a['what'], a['text']))
        rules += [dict(r, unit=ur['unit']) for r in meta['report']['rules']]
        # lemma proof fns of the spec files count as obligations of every property using the unit
        for fs in ur['fstats']:
            if fs['mode'] == 'proof':
                obligations.append(dict(id='lemma:' + fs['function'], kind='lemma', fn=fs['function'], assumed=False,
                                        unit=ur['unit'], backend='verus/z3'))
                if not fs['success']:
                    failed.append(dict(obligation='lemma:' + fs['function'], owner=prop, fn=fs['function'], kind='lemma',
                                       where=fs['function'], message='lemma not proved', rendered='', unit=ur['unit']))

    # ---- Kani jobs -------------------------------------------------------------------------
    bounded_checks = []
    kani_jobs = [k for k in cfg.get('kani', []) if tier == 'thorough' or k.get('tier', 'quick') == 'quick']
    dev_skip_jobs = bool(os.environ.get('VERIF_DEV_SKIP_JOBS'))   # dev sweeps only: Verus / Python obligations alone
    if dev_skip_jobs:
        kani_jobs = []
        print("  [dev] VERIF_DEV_SKIP_JOBS: Kani and native jobs skipped")
    kres = None
    if kani_jobs:
        kres = kanirun.run_jobs(prop, kani_jobs, work, tier)
        guards += kres['guards']
        assumptions += kres['assumptions']
        for h in kres['harnesses']:
            if h['status'] == 'inconclusive':
                raise Inconclusive("kani harness %s: %s" % (h['name'], h['detail'][:600]))
            entry = dict(id='kani:' + h['name'], kind=h['kind'], fn=h.get('target', h['name']), assumed=False,
                         unit='kani', backend='kani/cbmc', bound=h.get('bound'))
            if h['kind'] == 'proof':
                obligations.append(entry)
            else:
                bounded_checks.append(dict(harness=h['name'], bound=h.get('bound'), result=h['status'], time_s=h.get('time_s')))
            if h['status'] == 'failed':
                failed.append(dict(obligation='kani:' + h['name'], owner=prop, fn=h.get('target'), kind='kani-' + h['kind'],
                                   where='; '.join(h.get('failed_checks', [])[:3]), message=h['detail'][:500],
                                   rendered=h['detail'][:3000], unit='kani', concrete=h.get('concrete')))
            solver_ms += int(h.get('time_s', 0) * 1000)

    # ---- native exhaustive enumerations (bounded stand-ins for functions outside both verifiers) ----------------------
    for job in cfg.get('native', []):
        if dev_skip_jobs or (tier != 'thorough' and job.get('tier', 'quick') != 'quick'):
            continue
        scratch = kanirun.make_scratch(work)
        kanirun.weave(scratch, job['files'])
        for t in job['tests']:
            t1 = time.time()
            rep = kanirun.native_replay(scratch, t['name'], '')
            dt = round(time.time() - t1, 1)
            ran_ok = 'test result: ok. 1 passed' in rep['tail']
            if not rep['failed'] and not ran_ok:
                raise Inconclusive("native exhaustive check %s did not run: %s" % (t['name'], rep['tail'][-400:]))
            bounded_checks.append(dict(harness='native:' + t['name'], bound=t.get('bound'), result='failed' if rep['failed'] else 'passed', time_s=dt))
            if rep['failed']:
                m = re.search(r"panicked at [^\n]*\n([^\n]*)", rep['tail'])
                failed.append(dict(obligation='native:' + t['name'], owner=prop, fn=t.get('target', t['name']), kind='native-bounded',
                                   where=(m.group(1) if m else '')[:300], message=(m.group(1) if m else 'native exhaustive check failed')[:500],
                                   rendered=rep['tail'], unit='native',
                                   concrete=dict(harness=t['name'], failed_check='native exhaustive enumeration', input_hex=None,
                                                 replay_test=t['name'], replayed_natively=True, native_output=rep['tail'],
                                                 finder_bound=t.get('bound'))))
        assumptions += job.get('assumptions', [])

    # ---- Python WP job (C19) ------------------------------------------------------------------
    for job in cfg.get('pyvc', []):
        pres = pyvc_run.run(job, work)
        if pres.get('inconclusive'):
            raise Inconclusive("pyvc: " + pres['inconclusive'])
        for o in pres['obligations']:
            if job.get('select') and not re.search(job['select'], o['id']):
                continue   # this property owns only part of the tool's obligations
            obligations.append(dict(id='pyvc:' + o['id'], kind='wp', fn=o['fn'], assumed=False, unit=job.get('tool', 'pyvc'),
                                    backend={'pyglue': 'pyglue/typestate', 'pyinit': 'pyinit/z3'}.get(job.get('tool'), 'pyvc/z3')))
            if not o['ok']:
                failed.append(dict(obligation='pyvc:' + o['id'], owner=prop, fn=o['fn'], kind='wp', where=o.get('where', ''),
                                   message=o.get('message', ''), rendered=o.get('model', ''), unit='pyvc',
                                   concrete=o.get('replay')))
        assumptions += pres['assumptions']
        functions += pres['functions']
        guards += pres.get('guards', [])
        solver_ms += pres.get('solver_ms', 0)

    # ---- vacuity guard ------------------------------------------------------------------------
    if not obligations:
        raise Inconclusive("no obligations generated for %s" % prop)
    guards.append(dict(guard='non-vacuous', obligations=len(obligations)))

    # ---- verdicts -----------------------------------------------------------------------------
    violations = []
    known_hits = []
    failed_ids = set()
    for fl in failed:
        failed_ids.add(fl['obligation'])
        k = [x for x in known if x['obligation'] == fl['obligation'] or x['obligation'] == sanitize(fl['obligation'])]
        if k:
            known_hits.append((k[0], fl))
        else:
            violations.append(fl)
    # dedupe violations by obligation id
    seen = set()
    uniq = []
    for v in violations:
        if v['obligation'] in seen:
            continue
        seen.add(v['obligation'])
        uniq.append(v)
    violations = uniq
    for (k, fl) in known_hits:
        print("KNOWN-FINDING: property=%s %s [%s]" % (prop, k['what'], k['obligation']))
    # a known finding that no longer fails is reported (not an error)
    stale = [k for k in known if k['obligation'] not in failed_ids and k['obligation'] not in set(sanitize(x) for x in failed_ids)]
    for k in stale:
        print("NOTE: known finding %s did not fail in this run" % k['obligation'])

    out_lines = []
    # functions whose proof text lost its anchors: their failures are UNDECIDED unless a counterexample replays natively
    undecided = []
    standins = []   # undecided functions for which a bounded stand-in passed
    for fn, anchors in lost.items():
        owned_here = any(o['fn'] == fn for o in obligations)
        if owned_here and any(('loop anchor' in a or 'unsupported-construct' in a) for a in anchors) and not any(v['fn'] == fn for v in violations):
            violations.append(dict(obligation='%s#body-undecided' % fn, owner=prop, fn=fn, kind='lost-proof', where=fn,
                                   message='loop contract lost its anchor or the body uses a construct outside Verus: body unproven', rendered='', unit='-'))
    for v in violations:
        if v['fn'] in lost or (v.get('body_fn') and v['body_fn'] in lost):
            v['undecided'] = True
            if v['fn'] not in lost:
                lost[v['fn']] = ['in the implementation %s: %s' % (v['body_fn'], '; '.join(lost[v['body_fn']]))]
    for v in violations:
        rdir = os.path.join(HERE, 'replays', prop)
        os.makedirs(rdir, exist_ok=True)
        rpath = os.path.join(rdir, sanitize(v['obligation']) + '.json')
        replay = dict(property=prop, obligation=v['obligation'], function=v['fn'], kind=v['kind'], where=v['where'],
                      verifier_message=v['message'], verifier_output=v['rendered'], unit=v['unit'])
        found = None
        ran = []
        if v.get('concrete'):
            found = v['concrete']
        elif not args.no_finder:
            try:
                found = kanirun.find_counterexample(prop, v, cfg, work, ran=ran)
            except Exception as e:  # the finder never decides anything
                replay['finder_error'] = str(e)[:500]
        if v.get('undecided') and not (found and found.get('replayed_natively')) and not args.no_finder \
                and not [r for r in ran if r['covers']] and any(a.startswith('new-function anchor') for a in lost.get(v['fn'], [])):
            # a NEW helper function: no finder can name it, but it only runs through the functions that call it. If every caller in
            # the file is driven by a covering finder (which then drives the helper too), those stand in for the helper as well.
            nm = v['fn'].rsplit('::', 1)[-1].strip()
            callers = [fn for fn, anchors in lost.items() if ("calls-new-function anchor %r" % nm) in anchors]
            allcov = bool(callers)
            for cfn in callers:
                ran2 = []
                try:
                    f2 = kanirun.find_counterexample(prop, dict(v, fn=cfn), cfg, work, ran=ran2)
                except Exception as e:
                    f2 = None
                if f2 and f2.get('replayed_natively'):
                    found = f2
                    break
                c2 = [r for r in ran2 if r['covers']]
                if not c2:
                    allcov = False
                ran = [x for x in ran if x['name'] not in [r['name'] for r in c2]] + [dict(r, via=cfn) for r in c2]
            if not allcov:
                ran = [r for r in ran if not r.get('via')]
        if v.get('undecided') and not (found and found.get('replayed_natively')):
            cov = [r for r in ran if r['covers']]
            if cov:
                # the proof text no longer applies to the changed body, but a bounded check that drives exactly this function against an
                # independent reference ran on the changed code and passed: the function is reported as BOUNDED (never as proved)
                standins.append(dict(fn=v['fn'], obligation=v['obligation'], lost=lost.get(v['fn'], []), finders=cov))
                continue
            notes = ''.join(" [finder %s did not run: %s]" % (r['name'], r['did_not_run'][-300:].replace('\n', ' ')) for r in ran if r.get('did_not_run'))
            if replay.get('finder_error'):
                notes += " [finder error: %s]" % replay['finder_error'][:300]
            undecided.append("%s (lost: %s)%s" % (v['obligation'], '; '.join(lost.get(v['fn'], [])), notes))
            continue
        if found:
            replay['counterexample'] = found
        else:
            replay['counterexample'] = None
            replay['note'] = 'no failing input found by the bounded finder; the obligation passed on the unchanged tree and fails now'
        with open(rpath, 'w') as f:
            json.dump(replay, f, indent=1)
        line = "VIOLATION property=%s replay=%s" % (prop, rpath)
        if not found or not found.get('replayed_natively'):
            line += " no-failing-input-found"
        out_lines.append(line)
        print("  failed obligation: %s  [%s] %s @ %s" % (v['obligation'], v['kind'], v['message'][:120], v['where']))

    n_obl = len([o for o in obligations if not o['assumed']])
    for sd in standins:
        for r in sd['finders']:
            bounded_checks.append(dict(harness='standin:%s' % r['name'], bound=r['bound'], result='passed', time_s=None,
                                       stands_in_for=sd['fn'], why='proof text no longer applies to the changed body: ' + '; '.join(sd['lost'])[:300]))
    disc = len([o for o in obligations if not o['assumed'] and o['id'] not in failed_ids])
    # safety obligations fail under refined ids (fn#kind@loc): count the function's safety obligation as failed
    failed_fns = set(f['fn'] for f in failed if f['kind'] in ('pre', 'overflow', 'shift', 'divzero', 'unreachable', 'term', 'assert'))
    disc = len([o for o in obligations if not o['assumed'] and o['id'] not in failed_ids
                and not (o['kind'] in ('safety',) and o['fn'] in failed_fns)])
    kf_obl = len(set(k['obligation'] for k, _ in known_hits))
    kf_ids = set(fl['obligation'] for _, fl in known_hits)
    level = cfg.get('level', 'proof')
    samples = [dict(obligation=o['id'], kind=o['kind'], backend=o['backend'], unit=o['unit']) for o in obligations[:12]]
    coverage = dict(
        obligations=n_obl - kf_obl if level == 'proof' else n_obl,
        discharged=disc,
        checker_cmd="verus <unit>.rs --rlimit %s --multiple-errors 50 (per unit: %s); cargo kani -Z function-contracts -Z stubbing (harnesses: %s)" % (
            VERUS_RLIMIT, ','.join(cfg.get('units', [])) or '-', ','.join(h['name'] for h in (kres['harnesses'] if kres else [])) or '-'),
        trusted_base=sorted(set(cfg.get('trusted_base', []))),
        samples=samples,
        explanation=cfg.get('explanation', ''),
        exhaustive=False,
        functions_under_contract=functions,
        obligation_list=[dict(id=o['id'], kind=o['kind'], backend=o['backend'], unit=o['unit'],
                              status=('assumed' if o['assumed'] else ('failed' if o['id'] in failed_ids else 'discharged')))
                         for o in obligations],
        assumed_contracts=[o['id'] for o in obligations if o['assumed']],
        bounded_checks=bounded_checks,
        known_findings=[dict(obligation=k['obligation'], what=k['what']) for k, _ in known_hits],
        foreign_failures=foreign,
        guards=guards,
        solver_ms=solver_ms,
        verus_units=[dict(unit=u['unit'], verified=u['verified'], errors=u['errors'], wall_s=u['wall_s'], smt_ms=u['smt_ms'],
                          stability=u.get('stability')) for u in unit_results],
        extraction_rules_applied=len(rules),
        extraction_rule_counts={r: len([x for x in rules if x['rule'] == r]) for r in sorted(set(x['rule'] for x in rules))},
        extraction_rewrites=[x for x in rules if x['rule'] in ('RW', 'D1')][:40],
        not_decided_here=cfg.get('not_decided_here', []),
        bounded_standins=[dict(function=sd['fn'], obligation=sd['obligation'], lost_proof_text=sd['lost'],
                               bounded_checks=[r['name'] for r in sd['finders']]) for sd in standins],
    )
    ev = dict(property_id=prop, tier=tier, seed=seed, level=level, coverage=coverage,
              assumptions=sorted(set(assumptions + cfg.get('assumptions', []))),
              wall_s=round(time.time() - t0, 2), violations=len(out_lines))
    evidence_dir = os.environ.get('VERIF_EVIDENCE_DIR') or os.path.join(HERE, 'evidence')
    os.makedirs(evidence_dir, exist_ok=True)
    with open(os.path.join(evidence_dir, prop + '.json'), 'w') as f:
        json.dump(ev, f, indent=1)
    n_real = len(out_lines)
    if undecided and n_real == 0:
        raise Inconclusive("proof text lost its anchors and no counterexample replayed: " + ' | '.join(undecided)[:1500])
    if unverifiable and n_real == 0:
        raise Inconclusive(' | '.join(unverifiable)[:1500])
    for u in unverifiable:
        print("  note: %s (undecided part; the violation below was found elsewhere)" % u[:300])
    for ln in out_lines:
        print(ln)
    for sd in standins:
        print("BOUNDED: property=%s function=%s obligation=%s: the proof text no longer applies to the changed body (%s); bounded stand-in %s passed on it - not counted as proved" % (
            prop, sd['fn'], sd['obligation'], '; '.join(sd['lost'])[:200], ', '.join(r['name'] for r in sd['finders'])))
    print("%s: %d obligations, %d discharged, %d known findings, %d violations, %d bounded checks, %.1fs" % (
        prop, n_obl, disc, kf_obl, len(out_lines), len(bounded_checks), time.time() - t0))
    return 1 if out_lines else 0


if __name__ == '__main__':
    sys.exit(main())
