#!/bin/bash
# confirm every round-2 seed: patch alone 104/104; clean+demo passes; patch+demo fails
cd /verif
for d in seeded/*; do
  id=$(basename $d)
  grep -q "\"origin\": \"${ROUND:-round 2}" $d/meta.json || continue
  echo "##### $id"
  if [ -f $d/demo.py ]; then
    c=$(mktemp -d /tmp/seedc-XXXXXX); rsync -a --exclude target --exclude .git /repo/ $c/clean/; cp -r $c/clean $c/patched
    (cd $c/patched && git apply /verif/$d/patch.diff) || echo "patch does not apply"
    python3 $d/demo.py $c/clean > /dev/null 2>&1; echo "demo.py clean exit=$?"
    python3 $d/demo.py $c/patched > /dev/null 2>&1; echo "demo.py patched exit=$?"
    rm -rf $c
  else
    if grep -q '"needs_libpython": true' $d/meta.json; then export PYLINK=1; else unset PYLINK; fi
    bash tools/seed_confirm.sh $d seeded_demo 2>&1 | grep -v "^WARNING"
  fi
done
