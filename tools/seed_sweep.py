#!/usr/bin/env python3
"""seed_sweep.py [ids...] — for every seeded change: apply it to /repo, run the quick check of the property it breaks, undo it
(git -C /repo checkout -- .), and record the verdict in seeded/<id>/meta.json ("detected_by"). /repo must be clean."""
import json, os, subprocess, sys, time
HERE = os.path.dirname(os.path.dirname(os.path.abspath(__file__)))
SCRATCH = '--scratch' in sys.argv[1:]   # apply each patch to a scratch copy of /repo (VERIF_REPO) instead of /repo itself: sweeps can then run side by side
ids = [a for a in sys.argv[1:] if a != '--scratch'] or sorted(os.listdir(os.path.join(HERE, 'seeded')))
st = subprocess.run(['git', '-C', '/repo', 'status', '--porcelain'], capture_output=True, text=True).stdout.strip()
if st:
    print("/repo is not clean:\n" + st); sys.exit(2)
rows = []
for sid in ids:
    d = os.path.join(HERE, 'seeded', sid)
    meta = json.load(open(os.path.join(d, 'meta.json')))
    prop = meta['breaks_property']
    tree, env_extra = '/repo', {}
    if SCRATCH:
        import tempfile
        tree = tempfile.mkdtemp(prefix='seedsw-', dir='/tmp')
        subprocess.run(['rsync', '-a', '--exclude', 'target', '--exclude', '.git', '/repo/', tree + '/'], check=True)
        env_extra = dict(VERIF_REPO=tree)
        r = subprocess.run(['patch', '-p1', '-s', '-i', os.path.join(d, 'patch.diff')], cwd=tree, capture_output=True, text=True)
    else:
        r = subprocess.run(['git', '-C', '/repo', 'apply', os.path.join(d, 'patch.diff')], capture_output=True, text=True)
    if r.returncode != 0:
        print(sid, 'patch does not apply:', r.stderr[:200]); continue
    t0 = time.time()
    try:
        c = subprocess.run([os.path.join(HERE, 'check'), prop], capture_output=True, text=True, timeout=3600,
                           env=dict(os.environ, VERIF_EVIDENCE_DIR='/var/tmp/gufo-verif-seed-evidence' + ('-' + sid if SCRATCH else ''), **env_extra))
        out = c.stdout
        code = c.returncode
    finally:
        if SCRATCH:
            subprocess.run(['rm', '-rf', tree])
        else:
            subprocess.run(['git', '-C', '/repo', 'checkout', '--', '.'])
            subprocess.run(['git', '-C', '/repo', 'clean', '-fdq', 'src'])
    viol = [l for l in out.splitlines() if l.startswith('VIOLATION')]
    failed = [l.strip() for l in out.splitlines() if 'failed obligation' in l or 'could not be verified' in l]
    verdict = 'detected' if code == 1 and viol else ('inconclusive' if code == 2 else 'MISSED')
    meta['detected_by'] = dict(check='./check %s (quick)' % prop + (' on a scratch copy of /repo with the patch applied (VERIF_REPO)' if SCRATCH else ''), verdict=verdict, exit_code=code, wall_s=round(time.time() - t0, 1),
                               violation_lines=viol[:4], failed_obligations=failed[:4],
                               replayed=[('no-failing-input-found' not in v) for v in viol[:4]])
    json.dump(meta, open(os.path.join(d, 'meta.json'), 'w'), indent=1)
    rows.append((sid, prop, verdict, code, round(time.time() - t0)))
    print(sid, prop, verdict, 'exit', code, '%ds' % (time.time() - t0), (failed[:1] or [''])[0][:150], flush=True)
print(json.dumps(rows))
