#!/usr/bin/env python3
"""mkinventory.py — record, for the tree the contracts are written for (/repo at its committed HEAD, clean), what every unit
extracts: the top-level item keys and the function names of each source file, and the function each in-body rewrite (RW) lives in.
Written to contracts/verus/inventory.json and committed; regenerated only together with the contracts (after a `fix:` commit or a
new contract), never by a check. tools/vx.py uses it to tell a NEW item / function (for which no contract can exist: its failures
and those of its callers are undecided, never a violation) from a known one, and to confine a lost in-body rewrite to its function."""
import glob, json, os, subprocess, sys, tempfile, tomllib
os.environ['VERIF_NO_INVENTORY'] = '1'
HERE = os.path.dirname(os.path.dirname(os.path.abspath(__file__)))
sys.path.insert(0, os.path.join(HERE, 'tools'))
import vx
st = subprocess.run(['git', '-C', vx.REPO, 'status', '--porcelain'], capture_output=True, text=True).stdout.strip()
if st:
    print("the repository is not clean:\n" + st); sys.exit(2)
head = subprocess.run(['git', '-C', vx.REPO, 'rev-parse', 'HEAD'], capture_output=True, text=True).stdout.strip()
out = dict(generated_from=head, units={})
tmp = tempfile.mkdtemp(prefix='verif-inv-')
for f in sorted(glob.glob(os.path.join(HERE, 'contracts/verus/units/*.toml'))):
    name = tomllib.load(open(f, 'rb'))['name']
    rs, meta = vx.build_unit(name, tmp)
    src = {}
    for e in meta['linemap']:
        o = e['origin']
        if o[0] == 'src' and e.get('fn'):
            src[(o[1], o[2])] = e['fn']
    rewrites = {}
    for r in meta['report']['rules']:
        if r['rule'] != 'RW' or 'rw_from' not in r:
            continue
        fn = None
        for d in range(0, 4):
            fn = src.get((r['file'], r['line'] + d)) or src.get((r['file'], r['line'] - d))
            if fn:
                break
        # a rewrite outside every function (use lines, struct declarations, consts) has no home: losing it loses the unit
        rewrites.setdefault(r['file'], {}).setdefault(r['rw_from'], []).append(fn)
    out['units'][name] = dict(files=meta['inventory']['files'], rewrites=rewrites)
import shutil
shutil.rmtree(tmp, ignore_errors=True)
with open(os.path.join(HERE, 'contracts/verus/inventory.json'), 'w') as fh:
    json.dump(out, fh, indent=1, sort_keys=True)
print("inventory of %d units from %s" % (len(out['units']), head[:7]))
