#!/usr/bin/env python3
"""Generate MANIFEST.json from contracts/properties.toml (single source of truth)."""
import json, os, tomllib, sys
HERE = os.path.dirname(os.path.dirname(os.path.abspath(__file__)))
props = tomllib.load(open(os.path.join(HERE, 'contracts', 'properties.toml'), 'rb'))
all_ids = [json.loads(l)['id'] for l in open(os.path.join(HERE, 'properties.jsonl'))]
na = tomllib.load(open(os.path.join(HERE, 'contracts', 'not_applicable.toml'), 'rb'))
checks = []
for pid in all_ids:
    if pid not in props:
        continue
    c = props[pid]
    checks.append(dict(
        property_id=pid,
        quick_cmd="./check %s --tier quick" % pid,
        thorough_cmd="./check %s --tier thorough" % pid,
        evidence_file="/verif/evidence/%s.json" % pid,
        replay_cmd_template="cat {path}",
        engine="contracts",
        level_claimed=dict(category=c.get('level', 'proof'), text=c['level_text'], design_ref=c.get('design_ref', 'DESIGN.md §5 ' + pid)),
        level_note=c['level_note'],
        technique=c['technique'],
    ))
missing = [p for p in all_ids if p not in props and p not in na]
if missing:
    print("properties neither claimed nor not_applicable:", missing); sys.exit(1)
m = dict(
    version=1,
    setup_cmd="./setup.sh",
    hooks=dict(guard="none (no hooks: contracts are woven onto scratch copies; kani harness modules are #[cfg(kani)]/#[cfg(test)] text appended to scratch copies only)",
               enable="n/a — checks extract from /repo's working tree on every run",
               baseline_off_cmd="cd /repo && cargo test --workspace --no-fail-fast --offline",
               source_commits=[], add_only=True),
    engines=[dict(name="contracts", path="/verif/check", serves_properties=[c['property_id'] for c in checks],
                  kind_free_text="contract-based deductive verification: Verus on mechanically extracted verbatim functions (tools/vx.py), Kani function harnesses on the real crate (tools/kanirun.py), own WP generator for one Python function (tools/pyvc.py)")],
    checks=checks,
    not_applicable=[dict(property_id=k, reason=v['reason']) for k, v in na.items() if k not in props],
    notes="Repairs of genuine defects are unguarded 'fix:' commits in /repo, listed in /verif/known_findings.txt. exit 2 = inconclusive (lost anchor / resource limit), never an alarm.",
)
json.dump(m, open(os.path.join(HERE, 'MANIFEST.json'), 'w'), indent=1)
print("MANIFEST.json: %d checks, %d not applicable" % (len(checks), len(m['not_applicable'])))
