#!/usr/bin/env python3-vt
"""pyinit — weakest-precondition / path check of the two `SnmpSession.__init__` constructors and of `fetch()` in the Python
clients (properties C03, C13, C09: "session's version and credentials", "a session created with an engine id uses it from its
first message / without one defers the user's keys until discovery", "fetch() uses GetBulk only when ... bulk allowed").
Typed symbolic execution over the Python ast with Z3; the types come from the parameter annotations.

Value model (Python truthiness is part of it — `not x` on an IntEnum, on bytes, on an object are different tests):
  Optional[SnmpVersion]  (is_none, int value)           truthy <=> not None and value != 0     (IntEnum; v1 == 0 is FALSY)
  Optional[bytes]        (is_none, length, identity)    truthy <=> not None and length > 0
  Optional[User] / Optional[BasePolicer]  (is_none, identity)   truthy <=> not None        (no __bool__/__len__: checked)
  bool                   z3 Bool
  Optional[int|float]    (is_none, value)               truthy <=> not None and value != 0
  everything else        opaque (identity only); attributes / method results of a User are uninterpreted functions of its identity
Subset: annotated / plain assignment to locals and self.<attr>, if / elif / else, raise (the path raises), expression
statements, conditional expressions, `is None`, `is not None`, ==, !=, not, and, or; calls are constructors
(`SnmpV?ClientSocket(...)`, recorded with their arguments), `User.default()`, methods of a User, or opaque.
Anything else => INCONCLUSIVE (exit 2), never an alarm.

Contract (from the property statements), for every non-raising path, with  V = version if given else (v3 if user else v2c):
  I1  the socket class is the one of V (v1 / v2c / v3); a path raises only for V outside {v1, v2c, v3} or V == v3 without a user
  I2  v1 / v2c: the community handed to the socket is the `community` argument
  I3  self._allow_bulk == (allow_bulk and V != v1)
  I4  V == v3, with  D = (engine_id is None or empty),  U = User.default() if D else user:
        the socket gets engine id (b"" if D else engine_id), U.name, U.get_auth_alg(), U.get_auth_key(), U.get_priv_alg(),
        U.get_priv_key();  self._deferred_user == (user if D else None);  self._to_refresh == (D or U.require_auth())
  F1  fetch(): returns self.getbulk(oid) when self._allow_bulk else self.getnext(oid)
A failed obligation comes with the Z3 model (argument values) and, where possible, a native replay of the real constructor
against a recording stand-in for the compiled extension gufo.snmp._fast.
"""
import ast
import json
import os
import sys
import time

import z3

REPO = os.environ.get("VERIF_REPO", "/repo")
BASE = os.path.join(REPO, "src/gufo/snmp")
V1, V2C, V3 = 0, 1, 3
DEFAULT_USER = -1
SOCK = {'SnmpV1ClientSocket': V1, 'SnmpV2cClientSocket': V2C, 'SnmpV3ClientSocket': V3}


class Unsupported(Exception):
    pass


class Val:
    def __init__(self, kind, none=None, num=None, ident=None, b=None):
        self.kind, self.none, self.num, self.ident, self.b = kind, none, num, ident, b


def F(b):
    return z3.BoolVal(b)


CNT = [0]


def fresh(prefix='o'):
    CNT[0] += 1
    return z3.Int('%s_%d' % (prefix, CNT[0]))


def opaque():
    return Val('opaque', none=F(False), ident=fresh())


UF = {}


def ufun(name, rng=z3.IntSort()):
    if name not in UF:
        UF[name] = z3.Function(name, z3.IntSort(), rng)
    return UF[name]


def truthy(v):
    if v.kind == 'bool':
        return v.b
    if v.kind == 'enum':
        return z3.And(z3.Not(v.none), v.num != 0)
    if v.kind == 'bytes':
        return z3.And(z3.Not(v.none), v.num > 0)
    if v.kind == 'obj':
        if v.b is not None:
            # object of a class that defines __len__ as len(self.key): falsy when the key is empty
            return z3.And(z3.Not(v.none), ufun('attr_key_len')(v.ident) > 0)
        return z3.Not(v.none)
    if v.kind == 'num':
        return z3.And(z3.Not(v.none), v.num != 0)
    raise Unsupported("truthiness of a %s value" % v.kind)


def as_opaque(v):
    if v.kind == 'opaque':
        return v
    if v.kind == 'num':
        return Val('opaque', none=v.none, ident=v.num)
    if v.kind == 'bytes':
        return Val('opaque', none=v.none, ident=v.ident)
    return None


def ite(c, a, b):
    if a.kind != b.kind and 'opaque' in (a.kind, b.kind):
        a2, b2 = as_opaque(a), as_opaque(b)
        if a2 is not None and b2 is not None:
            a, b = a2, b2
    if a.kind != b.kind:
        raise Unsupported("conditional expression mixes %s and %s" % (a.kind, b.kind))
    k = a.kind
    if k == 'bool':
        return Val('bool', b=z3.If(c, a.b, b.b))
    return Val(k, none=z3.If(c, a.none, b.none),
               num=z3.If(c, a.num, b.num) if a.num is not None and b.num is not None else None,
               ident=z3.If(c, a.ident, b.ident) if a.ident is not None and b.ident is not None else None)


class Path:
    def __init__(self, cond, env, raised=False, events=None, ret=None):
        self.cond, self.env, self.raised, self.events, self.ret = cond, env, raised, events or [], ret


class Exec:
    def __init__(self, enum):
        self.enum = enum   # SnmpVersion member -> int

    def expr(self, e, p):
        if isinstance(e, ast.Constant):
            if e.value is None:
                return Val('none', none=F(True))
            if isinstance(e.value, bool):
                return Val('bool', b=F(e.value))
            if isinstance(e.value, bytes):
                return Val('bytes', none=F(False), num=z3.IntVal(len(e.value)), ident=z3.IntVal(-100 - len(e.value)))
            if isinstance(e.value, (int, float)) and e.value == int(e.value):
                return Val('num', none=F(False), num=z3.IntVal(int(e.value)))
            return opaque()
        if isinstance(e, ast.Name):
            if e.id in p.env:
                return p.env[e.id]
            return opaque()
        if isinstance(e, ast.Attribute):
            if isinstance(e.value, ast.Name) and e.value.id == 'SnmpVersion' and e.attr in self.enum:
                return Val('enum', none=F(False), num=z3.IntVal(self.enum[e.attr]))
            if isinstance(e.value, ast.Name) and e.value.id == 'self':
                k = 'self.' + e.attr
                if k in p.env:
                    return p.env[k]
                return opaque()
            base = self.expr(e.value, p)
            if base.kind in ('obj', 'opaque') and base.ident is not None:
                if e.attr in ('_is_aligned', 'is_password', 'is_master', 'is_localized'):
                    return Val('bool', b=ufun('battr_' + e.attr, z3.BoolSort())(base.ident))
                return Val('opaque', none=F(False), ident=ufun('attr_' + e.attr)(base.ident))
            return opaque()
        if isinstance(e, ast.BinOp) and isinstance(e.op, ast.BitOr):
            a, b = as_opaque(self.expr(e.left, p)), as_opaque(self.expr(e.right, p))
            if a is None or b is None:
                return opaque()
            return Val('opaque', none=F(False), ident=z3.Function('bor', z3.IntSort(), z3.IntSort(), z3.IntSort())(a.ident, b.ident))
        if isinstance(e, ast.IfExp):
            c = self.cond(e.test, p)
            return ite(c, self.expr(e.body, p), self.expr(e.orelse, p))
        if isinstance(e, ast.BoolOp) and len(e.values) == 2:
            # value semantics: `x or y` is x if x is truthy else y; `x and y` is y if x is truthy else x
            a = self.expr(e.values[0], p)
            b = self.expr(e.values[1], p)
            if a.kind == b.kind and a.kind != 'bool':
                t = truthy(a)
                return ite(t, a, b) if isinstance(e.op, ast.Or) else ite(t, b, a)
        if isinstance(e, (ast.UnaryOp, ast.BoolOp, ast.Compare)):
            try:
                return Val('bool', b=self.cond(e, p))
            except Unsupported:
                return opaque()
        if isinstance(e, ast.Call):
            f = e.func
            if isinstance(f, ast.Name) and f.id in SOCK:
                args = [self.expr(a, p) for a in e.args]
                if e.keywords:
                    raise Unsupported("keyword arguments in %s(...)" % f.id)
                v = Val('obj', none=F(False), ident=fresh('sock'))
                p.events.append(('sock', f.id, args))
                return v
            if isinstance(f, ast.Attribute) and isinstance(f.value, ast.Name) and f.value.id == 'User' and f.attr == 'default' and not e.args:
                return Val('obj', none=F(False), ident=z3.IntVal(DEFAULT_USER))
            if isinstance(f, ast.Attribute):
                base = self.expr(f.value, p)
                if base.kind == 'obj' and f.attr == '_pad' and len(e.args) == 1:
                    p.events.append(('pad', base.ident, as_opaque(self.expr(e.args[0], p))))
                    return Val('none', none=F(True))
                if base.kind == 'obj' and not e.args and not e.keywords:
                    if f.attr == 'require_auth':
                        return Val('bool', b=ufun('m_require_auth', z3.BoolSort())(base.ident))
                    return Val('opaque', none=F(False), ident=ufun('m_' + f.attr)(base.ident))
                if isinstance(f.value, ast.Name) and f.value.id == 'self' and f.attr in ('getbulk', 'getnext'):
                    return Val('call', none=F(False), ident=z3.IntVal(1 if f.attr == 'getbulk' else 2))
            if isinstance(f, ast.Name) and f.id in ('GetBulkIter', 'GetNextIter'):
                args = [self.expr(a, p) for a in e.args]
                p.events.append(('iter', f.id, args))
                return Val('call', none=F(False), ident=z3.IntVal(3 if f.id == 'GetBulkIter' else 4))
            if isinstance(f, ast.Name) and f.id == 'RPSPolicer':
                return Val('obj', none=F(False), ident=fresh('policer'))
            for a in e.args:
                self.expr(a, p)
            return opaque()
        return opaque()

    def cond(self, e, p):
        if isinstance(e, ast.BoolOp):
            vs = [self.cond(v, p) for v in e.values]
            return z3.And(*vs) if isinstance(e.op, ast.And) else z3.Or(*vs)
        if isinstance(e, ast.UnaryOp) and isinstance(e.op, ast.Not):
            return z3.Not(self.cond(e.operand, p))
        if isinstance(e, ast.Compare) and len(e.ops) == 1:
            a = self.expr(e.left, p)
            b = self.expr(e.comparators[0], p)
            op = e.ops[0]
            if isinstance(op, (ast.Is, ast.IsNot)):
                if b.kind != 'none':
                    raise Unsupported("`is` with something else than None")
                r = F(False) if a.kind == 'bool' else a.none
                return r if isinstance(op, ast.Is) else z3.Not(r)
            if isinstance(op, (ast.Eq, ast.NotEq)):
                if a.kind == 'enum' and b.kind == 'enum':
                    r = z3.And(z3.Not(a.none), z3.Not(b.none), a.num == b.num)
                elif a.kind == 'none' or b.kind == 'none':
                    o = b if a.kind == 'none' else a
                    r = o.none if o.kind != 'bool' else F(False)
                else:
                    raise Unsupported("comparison of %s with %s" % (a.kind, b.kind))
                return r if isinstance(op, ast.Eq) else z3.Not(r)
            raise Unsupported("comparison operator %s" % type(op).__name__)
        return truthy(self.expr(e, p))

    def block(self, stmts, paths):
        for st in stmts:
            nxt = []
            for p in paths:
                if p.raised or p.ret is not None:
                    nxt.append(p)
                else:
                    nxt += self.stmt(st, p)
            paths = nxt
        return paths

    def stmt(self, st, p):
        if isinstance(st, ast.Expr):
            if not isinstance(st.value, ast.Constant):
                self.expr(st.value, p)
            return [p]
        if isinstance(st, ast.AnnAssign):
            if st.value is None:
                return [p]
            v = self.expr(st.value, p)
            p.env[self.target(st.target)] = self.coerce_none(v, st.annotation)
            return [p]
        if isinstance(st, ast.Assign) and len(st.targets) == 1:
            v = self.expr(st.value, p)
            k = self.target(st.targets[0])
            old = p.env.get(k)
            if v.kind == 'none' and old is not None and old.kind not in ('none', 'opaque'):
                v = Val(old.kind, none=F(True), num=old.num, ident=old.ident, b=old.b)
            p.env[k] = v
            return [p]
        if isinstance(st, ast.Raise):
            return [Path(p.cond, p.env, raised=True, events=p.events)]
        if isinstance(st, ast.Return):
            return [Path(p.cond, p.env, events=p.events, ret=self.expr(st.value, p) if st.value is not None else Val('none', none=F(True)))]
        if isinstance(st, ast.If):
            c = self.cond(st.test, p)
            pt = Path(p.cond + [c], dict(p.env), events=list(p.events))
            pf = Path(p.cond + [z3.Not(c)], dict(p.env), events=list(p.events))
            return self.block(st.body, [pt]) + self.block(st.orelse, [pf])
        if isinstance(st, ast.Pass):
            return [p]
        raise Unsupported("statement %s at line %d" % (type(st).__name__, st.lineno))

    @staticmethod
    def coerce_none(v, ann):
        if v.kind != 'none':
            return v
        s = ast.unparse(ann)
        if 'User' in s or 'Policer' in s:
            return Val('obj', none=F(True), ident=z3.IntVal(0))
        return v

    @staticmethod
    def target(t):
        if isinstance(t, ast.Name):
            return t.id
        if isinstance(t, ast.Attribute) and isinstance(t.value, ast.Name) and t.value.id == 'self':
            return 'self.' + t.attr
        raise Unsupported("assignment target")


def find_method(tree, cls, name):
    for st in tree.body:
        if isinstance(st, ast.ClassDef) and st.name == cls:
            for m in st.body:
                if isinstance(m, (ast.FunctionDef, ast.AsyncFunctionDef)) and m.name == name:
                    return m
    return None


def param_values(fn):
    """Symbolic values of the parameters, typed by their annotations."""
    env = {}
    sym = {}
    allargs = fn.args.args + fn.args.kwonlyargs
    for a in allargs:
        if a.arg == 'self':
            continue
        ann = ast.unparse(a.annotation) if a.annotation is not None else ''
        n = a.arg
        if 'SnmpVersion' in ann:
            v = Val('enum', none=z3.Bool(n + '_is_none'), num=z3.Int(n))
        elif 'bytes' in ann:
            v = Val('bytes', none=z3.Bool(n + '_is_none'), num=z3.Int(n + '_len'), ident=z3.Int(n + '_id'))
        elif 'User' in ann or 'Policer' in ann:
            v = Val('obj', none=z3.Bool(n + '_is_none'), ident=z3.Int(n + '_id'))
        elif ann == 'bool':
            v = Val('bool', b=z3.Bool(n))
        elif ann.startswith('Optional[') and ('int' in ann or 'float' in ann):
            v = Val('num', none=z3.Bool(n + '_is_none'), num=z3.Int(n))
        else:
            v = Val('opaque', none=F(False), ident=z3.Int(n + '_id'))
        env[n] = v
        sym[n] = v
    return env, sym


def replay_init(client_rel, model_args):
    """Run the real constructor against a recording stand-in for gufo.snmp._fast."""
    import importlib
    import types
    src = os.path.join(REPO, 'src')
    saved = dict(sys.modules)
    sys.path.insert(0, src)
    try:
        for k in list(sys.modules):
            if k == 'gufo' or k.startswith('gufo.'):
                del sys.modules[k]
        rec = []

        class Sock:
            def __init__(self, *a):
                rec.append((type(self).__name__, a))

            def get_fd(self):
                return 0
        fast = types.ModuleType('gufo.snmp._fast')
        for n in SOCK:
            setattr(fast, n, type(n, (Sock,), {}))
        fast.__getattr__ = lambda name: type(name, (Exception,), {})
        sys.modules['gufo.snmp._fast'] = fast
        pkg = importlib.import_module('gufo.snmp.' + client_rel)
        user_mod = importlib.import_module('gufo.snmp.user')
        ver_mod = importlib.import_module('gufo.snmp.version')
        kw = {}
        if model_args.get('version') is not None:
            kw['version'] = ver_mod.SnmpVersion(model_args['version'])
        if model_args.get('user'):
            kw['user'] = user_mod.User(name='u')
        if model_args.get('engine_id') is not None:
            kw['engine_id'] = b'\x80' * model_args['engine_id']
        kw['allow_bulk'] = bool(model_args.get('allow_bulk', True))
        try:
            s = pkg.SnmpSession('127.0.0.1', **kw)
        except ValueError as e:
            return dict(raised='ValueError: %s' % e)
        return dict(socket=rec[0][0] if rec else None, engine_id=(rec[0][1][1].hex() if rec and rec[0][0] == 'SnmpV3ClientSocket' else None),
                    user_name=(rec[0][1][2] if rec and rec[0][0] == 'SnmpV3ClientSocket' else None),
                    allow_bulk=s._allow_bulk, deferred_user=(s._deferred_user is not None), to_refresh=s._to_refresh)
    finally:
        sys.path.remove(src)
        for k in list(sys.modules):
            if k == 'gufo' or k.startswith('gufo.'):
                del sys.modules[k]
        sys.modules.update({k: v for k, v in saved.items() if k == 'gufo' or k.startswith('gufo.')})


def expected_init(a):
    """What the contract says about SnmpSession(**a) (the part that can be observed on the recording stand-in)."""
    v = a['version'] if a['version'] is not None else (V3 if a['user'] else V2C)
    if v not in (V1, V2C, V3) or (v == V3 and not a['user']):
        return dict(raised=True)
    exp = dict(socket={V1: 'SnmpV1ClientSocket', V2C: 'SnmpV2cClientSocket', V3: 'SnmpV3ClientSocket'}[v], allow_bulk=bool(a['allow_bulk']) and v != V1)
    if v == V3:
        d = a['engine_id'] is None or a['engine_id'] == 0
        exp.update(engine_id='' if d else '80' * a['engine_id'], deferred_user=d, user_name=None if d else 'u')
    return exp


def disagrees(nat, exp):
    if exp.get('raised'):
        return 'raised' not in nat
    if 'raised' in nat:
        return True
    for k, v in exp.items():
        if v is not None and nat.get(k) != v:
            return True
    return False


def check_user(out):
    """U1 / U2: class User of src/gufo/snmp/user.py (C12: key material handed to the socket; C14 / C09: a configured key is used)."""
    rel = 'user.py'
    tree = ast.parse(open(os.path.join(BASE, rel)).read())
    # truthiness of key objects: BaseKey and its subclasses
    keylen = False
    for st in tree.body:
        if isinstance(st, ast.ClassDef) and (st.name.endswith('Key') or st.name == 'BaseKey'):
            for m in st.body:
                if isinstance(m, ast.FunctionDef) and m.name == '__bool__':
                    raise Unsupported("class %s defines __bool__" % st.name)
                if isinstance(m, ast.FunctionDef) and m.name == '__len__':
                    ok = len(m.body) >= 1 and isinstance(m.body[-1], ast.Return) and ast.unparse(m.body[-1].value) == 'len(self.key)'
                    if not ok:
                        raise Unsupported("class %s defines a __len__ that is not len(self.key)" % st.name)
                    keylen = True

    def key(name):
        return Val('obj', none=z3.Bool(name + '_is_none'), ident=z3.Int(name + '_id'), b=(F(True) if keylen else None))
    ak, pk = key('auth_key'), key('priv_key')
    pre = [ak.ident > 0, pk.ident > 0, ak.ident != pk.ident, ufun('attr_key_len')(ak.ident) >= 0, ufun('attr_key_len')(pk.ident) >= 0]
    enum = {}

    def run(fn, env):
        return Exec(enum).block(fn.body, [Path([], env)])

    def prove(oid, fnname, conds, goal, msg):
        sol = z3.Solver()
        sol.set('timeout', 20000)
        for h in pre + conds:
            sol.add(h)
        sol.add(z3.Not(goal))
        t1 = time.time()
        r = sol.check()
        out['solver_ms'] += int((time.time() - t1) * 1000)
        ob = dict(id='user:' + oid, fn="%s :: User.%s" % (rel, fnname), where=fnname, ok=(r == z3.unsat), unknown=(r == z3.unknown), message='')
        if r == z3.sat:
            m = sol.model()
            ob['message'] = "%s (auth_key %s, priv_key %s%s)" % (msg, 'None' if z3.is_true(m.eval(ak.none, model_completion=True)) else 'given',
                                                                 'None' if z3.is_true(m.eval(pk.none, model_completion=True)) else 'given',
                                                                 ', priv key of %s octets' % m.eval(ufun('attr_key_len')(pk.ident), model_completion=True) if keylen else '')
        prev = [o for o in out['obligations'] if o['id'] == ob['id']]
        if not prev:
            out['obligations'].append(ob)
        elif prev[0]['ok'] and not ob['ok']:
            prev[0].update(ob)
    # ---- U1: __init__ -----------------------------------------------------------------------------------------------
    init = find_method(tree, 'User', '__init__')
    if init is None:
        raise Unsupported("User.__init__ is gone")
    paths = run(init, {'name': opaque(), 'auth_key': ak, 'priv_key': pk})
    aligned = ufun('battr__is_aligned', z3.BoolSort())(ufun('attr_key_type')(pk.ident))
    n = 0
    for p in paths:
        sol = z3.Solver()
        for h in pre + p.cond:
            sol.add(h)
        if sol.check() != z3.sat:
            continue
        n += 1
        must_raise = z3.And(z3.Not(pk.none), ak.none)
        if p.raised:
            prove('U1_refuses_only_privacy_without_authentication', '__init__', p.cond, must_raise, "User() raises for a valid combination of keys")
            continue
        prove('U1_privacy_needs_authentication', '__init__', p.cond, z3.Not(must_raise), "a privacy key without an authentication key is accepted")
        pads = [e for e in p.events if e[0] == 'pad']
        want_pad = z3.And(z3.Not(pk.none), z3.Not(ak.none), aligned)
        if len(pads) > 1:
            raise Unsupported("User.__init__ pads more than once on a path")
        if pads:
            _, who, arg = pads[0]
            prove('U1_pads_the_privacy_key_iff_it_is_a_master_or_localized_key', '__init__', p.cond,
                  z3.And(want_pad, who == pk.ident, arg.ident == ufun('attr_KEY_LENGTH')(ak.ident)) if arg is not None else F(False),
                  "the privacy key is padded although it is a password, or not to the authentication key length")
        else:
            prove('U1_pads_the_privacy_key_iff_it_is_a_master_or_localized_key', '__init__', p.cond, z3.Not(want_pad),
                  "a master / localized privacy key is not padded to the authentication key length")
        for fld, v in (('auth_key', ak), ('priv_key', pk)):
            got = p.env.get('self.' + fld)
            prove('U1_keeps_the_keys_it_is_given', '__init__', p.cond,
                  z3.And(got.none == v.none, z3.Or(v.none, got.ident == v.ident)) if got is not None and got.kind == 'obj' else F(False),
                  "self.%s is not the %s argument" % (fld, fld))
    if n < 3:
        raise Unsupported("User.__init__: fewer than 3 feasible paths")
    out['functions'].append(dict(fn='src/gufo/snmp/user.py :: User.__init__', contract=True, mode='pyinit-wp', paths=n))
    # ---- U2: getters ------------------------------------------------------------------------------------------------
    bor = z3.Function('bor', z3.IntSort(), z3.IntSort(), z3.IntSort())
    table = (('get_auth_alg', ak, lambda k: bor(ufun('attr_AUTH_ALG')(k), ufun('attr__mask')(ufun('attr_key_type')(k))), z3.IntVal(0)),
             ('get_priv_alg', pk, lambda k: bor(ufun('attr_PRIV_ALG')(k), ufun('attr__mask')(ufun('attr_key_type')(k))), z3.IntVal(0)),
             ('get_auth_key', ak, lambda k: ufun('attr_key')(k), z3.IntVal(-100)),
             ('get_priv_key', pk, lambda k: ufun('attr_key')(k), z3.IntVal(-100)))
    for name, kv, want, dflt in table:
        fn = find_method(tree, 'User', name)
        if fn is None:
            raise Unsupported("User.%s is gone" % name)
        for p in run(fn, {'self.auth_key': ak, 'self.priv_key': pk}):
            sol = z3.Solver()
            for h in pre + p.cond:
                sol.add(h)
            if sol.check() != z3.sat:
                continue
            r = as_opaque(p.ret) if p.ret is not None else None
            goal = (r.ident == z3.If(kv.none, dflt, want(kv.ident))) if r is not None else F(False)
            prove('U2_%s_of_the_configured_key' % name, name, p.cond, goal,
                  "%s() does not return the value of the configured key (a key that is set counts as configured, whatever it holds)" % name)
        out['functions'].append(dict(fn='src/gufo/snmp/user.py :: User.%s' % name, contract=True, mode='pyinit-wp'))


def main():
    out = dict(obligations=[], assumptions=[], functions=[], guards=[], solver_ms=0)
    try:
        vt = ast.parse(open(os.path.join(BASE, 'version.py')).read())
        enum = {}
        for st in vt.body:
            if isinstance(st, ast.ClassDef) and st.name == 'SnmpVersion':
                for m in st.body:
                    if isinstance(m, ast.Assign) and isinstance(m.value, ast.Constant) and isinstance(m.value.value, int):
                        enum[m.targets[0].id] = m.value.value
        if enum != {'v1': V1, 'v2c': V2C, 'v3': V3}:
            raise Unsupported("SnmpVersion members changed: %s" % enum)
        ut = ast.parse(open(os.path.join(BASE, 'user.py')).read())
        ucls = [st for st in ut.body if isinstance(st, ast.ClassDef) and st.name == 'User']
        if not ucls or any(isinstance(m, ast.FunctionDef) and m.name in ('__bool__', '__len__') for m in ucls[0].body):
            raise Unsupported("class User defines __bool__/__len__ (truthiness model no longer valid)")
        for rel, tag in (('sync_client/client.py', 'sync'), ('async_client/client.py', 'async')):
            tree = ast.parse(open(os.path.join(BASE, rel)).read())
            fn = find_method(tree, 'SnmpSession', '__init__')
            if fn is None:
                raise Unsupported("%s: SnmpSession.__init__ is gone" % rel)
            env, sym = param_values(fn)
            for need in ('version', 'user', 'engine_id', 'community', 'allow_bulk'):
                if need not in sym:
                    raise Unsupported("%s: __init__ has no parameter %s" % (rel, need))
            ex = Exec(enum)
            paths = ex.block(fn.body, [Path([], env)])
            ver, user, eid, comm, ab = sym['version'], sym['user'], sym['engine_id'], sym['community'], sym['allow_bulk']
            pre = [eid.num >= 0, user.ident > 0, eid.ident > 0]
            veff = z3.If(ver.none, z3.If(user.none, z3.IntVal(V2C), z3.IntVal(V3)), ver.num)
            must_raise = z3.Or(z3.And(veff != V1, veff != V2C, veff != V3), z3.And(veff == V3, user.none))
            D = z3.Or(eid.none, eid.num == 0)
            U = z3.If(D, z3.IntVal(DEFAULT_USER), user.ident)

            def check(oid, p, goal, where):
                s = z3.Solver()
                s.set('timeout', 20000)
                for h in pre + p.cond:
                    s.add(h)
                s.add(z3.Not(goal))
                t1 = time.time()
                r = s.check()
                out['solver_ms'] += int((time.time() - t1) * 1000)
                clause = oid.split('.', 1)[1]
                ob = dict(id="%s:%s" % (tag, clause), fn="%s :: SnmpSession.__init__" % rel, where=where, ok=(r == z3.unsat), unknown=(r == z3.unknown), paths=1)
                if r == z3.sat:
                    m = s.model()

                    def iv(x):
                        return m.eval(x, model_completion=True).as_long()

                    def bv(x):
                        return z3.is_true(m.eval(x, model_completion=True))
                    args = dict(version=None if bv(ver.none) else iv(ver.num), user=not bv(user.none),
                                engine_id=None if bv(eid.none) else iv(eid.num), allow_bulk=bv(ab.b))
                    ob['message'] = 'counterexample: SnmpSession(version=%s, user=%s, engine_id=%s, allow_bulk=%s)' % (
                        {None: 'None', 0: 'v1', 1: 'v2c', 3: 'v3'}.get(args['version'], args['version']), 'User(...)' if args['user'] else 'None',
                        'None' if args['engine_id'] is None else '<%d octets>' % args['engine_id'], args['allow_bulk'])
                    try:
                        if args['version'] in (None, 0, 1, 3) and (args['engine_id'] is None or args['engine_id'] < 64):
                            nat = replay_init(rel[:-3].replace('/', '.'), args)
                            ob['replay'] = dict(input=args, native=nat, expected=expected_init(args), replayed_natively=disagrees(nat, expected_init(args)),
                                                harness='pyinit native replay of %s SnmpSession.__init__ against a recording gufo.snmp._fast' % tag)
                    except Exception as e:  # noqa
                        ob['replay'] = dict(input=args, replayed_natively=False, error=str(e)[:300])
                # one obligation per clause of the contract: it holds iff it holds on every feasible path (first failing path reported)
                prev = [o for o in out['obligations'] if o['id'] == ob['id']]
                if not prev:
                    out['obligations'].append(ob)
                elif prev[0]['ok'] and not prev[0].get('unknown'):
                    n = prev[0].get('paths', 1) + 1
                    if not ob['ok'] or ob.get('unknown'):
                        prev[0].clear()
                        prev[0].update(ob)
                    prev[0]['paths'] = n

            n_ok = 0
            canary_refuted = False
            for pi, p in enumerate(paths):
                s = z3.Solver()
                for h in pre + p.cond:
                    s.add(h)
                if s.check() != z3.sat:
                    continue   # infeasible path
                where = "path %d" % pi
                if p.raised:
                    check("P%d.I1_raises_only_for_an_invalid_request" % pi, p, must_raise, where)
                    continue
                n_ok += 1
                check("P%d.I1_no_session_for_an_invalid_request" % pi, p, z3.Not(must_raise), where)
                socks = [e for e in p.events if e[0] == 'sock']
                if len(socks) != 1:
                    raise Unsupported("%s: a path builds %d sockets" % (rel, len(socks)))
                _, cls, args = socks[0]
                check("P%d.I1_socket_class_of_the_version" % pi, p, veff == SOCK[cls], where)
                # canary: the FALSE claim "every session is v2c" must be refuted on some path
                sc = z3.Solver()
                for h in pre + p.cond:
                    sc.add(h)
                sc.add(veff != V2C)
                if sc.check() == z3.sat:
                    canary_refuted = True
                ab2 = p.env.get('self._allow_bulk')
                if ab2 is None or ab2.kind != 'bool':
                    raise Unsupported("%s: self._allow_bulk is not assigned a bool on a path" % rel)
                check("P%d.I3_bulk_only_if_allowed_and_not_v1" % pi, p, ab2.b == z3.And(ab.b, veff != V1), where)
                if SOCK[cls] in (V1, V2C):
                    if len(args) < 2:
                        raise Unsupported("socket arguments")
                    check("P%d.I2_community_argument" % pi, p, z3.And(args[1].kind == 'opaque', args[1].ident == comm.ident) if args[1].ident is not None else F(False), where)
                else:
                    if len(args) < 7:
                        raise Unsupported("v3 socket arguments")
                    e1 = args[1]
                    g_eid = z3.If(D, e1.num == 0, z3.And(e1.ident == eid.ident, e1.num == eid.num)) if e1.kind == 'bytes' else F(False)
                    check("P%d.I4_engine_id_argument" % pi, p, z3.And(z3.Not(e1.none), g_eid) if e1.kind == 'bytes' else F(False), where)
                    want = [ufun('attr_name')(U), ufun('m_get_auth_alg')(U), ufun('m_get_auth_key')(U), ufun('m_get_priv_alg')(U), ufun('m_get_priv_key')(U)]
                    got = args[2:7]
                    g = z3.And(*[(a.ident == w) if a.ident is not None else F(False) for a, w in zip(got, want)])
                    check("P%d.I4_credentials_of_the_user_or_of_the_default_user" % pi, p, g, where)
                    du = p.env.get('self._deferred_user')
                    if du is None or du.kind != 'obj':
                        raise Unsupported("%s: self._deferred_user is not a User / None on a path" % rel)
                    check("P%d.I4_deferred_user" % pi, p, z3.If(D, z3.And(z3.Not(du.none), du.ident == user.ident), du.none), where)
                    tr = p.env.get('self._to_refresh')
                    if tr is None or tr.kind != 'bool':
                        raise Unsupported("%s: self._to_refresh is not a bool on a path" % rel)
                    check("P%d.I4_refresh_needed" % pi, p, tr.b == z3.Or(D, ufun('m_require_auth', z3.BoolSort())(U)), where)
            out['guards'].append(dict(guard='constructor-paths', client=tag, feasible_non_raising=n_ok))
            out['guards'].append(dict(guard='pyinit-canary', client=tag, claim='every session is v2c (false)', result='refuted' if canary_refuted else 'NOT-REFUTED'))
            if not canary_refuted:
                raise Unsupported("pyinit canary: a false claim was not refuted")
            if n_ok < 3:
                raise Unsupported("%s: fewer than 3 feasible constructor paths" % rel)
            out['functions'].append(dict(fn='src/gufo/snmp/%s :: SnmpSession.__init__' % rel, contract=True, mode='pyinit-wp', paths=len(paths)))
            # ---- F1: fetch -----------------------------------------------------------------------------------------------
            ff = find_method(tree, 'SnmpSession', 'fetch')
            if ff is None:
                raise Unsupported("%s: SnmpSession.fetch is gone" % rel)
            abv = z3.Bool('self_allow_bulk')
            fp = Exec(enum).block(ff.body, [Path([], {'self._allow_bulk': Val('bool', b=abv)})])
            for pi, p in enumerate(fp):
                s = z3.Solver()
                for h in p.cond:
                    s.add(h)
                if s.check() != z3.sat:
                    continue
                ok = p.ret is not None and p.ret.kind == 'call'
                goal = (p.ret.ident == z3.If(abv, 1, 2)) if ok else F(False)
                s = z3.Solver()
                for h in p.cond:
                    s.add(h)
                s.add(z3.Not(goal))
                r = s.check()
                out['obligations'].append(dict(id="%s:fetch.P%d.F1_bulk_iff_allowed" % (tag, pi), fn="%s :: SnmpSession.fetch" % rel, where="path %d" % pi,
                                               ok=(r == z3.unsat), unknown=(r == z3.unknown),
                                               message="" if r == z3.unsat else "fetch() does not return getbulk() exactly when self._allow_bulk"))
            out['functions'].append(dict(fn='src/gufo/snmp/%s :: SnmpSession.fetch' % rel, contract=True, mode='pyinit-wp', paths=len(fp)))
            # ---- G1: getbulk(oid, max_repetitions=None): the iterator asks for the caller's max_repetitions, or for the session's
            #          value when none (or 0, which an agent answers with nothing) is given --------------------------------
            gb = find_method(tree, 'SnmpSession', 'getbulk')
            if gb is None:
                raise Unsupported("%s: SnmpSession.getbulk is gone" % rel)
            names = [a.arg for a in gb.args.args]
            if 'max_repetitions' not in names:
                raise Unsupported("%s: getbulk has no max_repetitions parameter" % rel)
            dflt = gb.args.defaults[names.index('max_repetitions') - (len(names) - len(gb.args.defaults))] if (names.index('max_repetitions') - (len(names) - len(gb.args.defaults))) >= 0 else None
            d_ok = isinstance(dflt, ast.Constant) and dflt.value is None
            out['obligations'].append(dict(id="%s:G1_getbulk_default_is_the_session_value" % tag, fn="%s :: SnmpSession.getbulk" % rel, where="signature",
                                           ok=d_ok, unknown=False, message="" if d_ok else "the default of getbulk(max_repetitions=...) is not None: the session's max_repetitions is no longer used"))
            mr = Val('num', none=z3.Bool('mr_is_none'), num=z3.Int('mr'))
            smr = Val('num', none=F(False), num=z3.Int('session_mr'))
            gp = Exec(enum).block(gb.body, [Path([], {'max_repetitions': mr, 'self._max_repetitions': smr, 'oid': opaque()})])
            want = z3.If(z3.And(z3.Not(mr.none), mr.num != 0), mr.num, smr.num)
            for pi, p in enumerate(gp):
                sol = z3.Solver()
                for h in p.cond:
                    sol.add(h)
                if sol.check() != z3.sat:
                    continue
                its = [e for e in p.events if e[0] == 'iter' and e[1] == 'GetBulkIter']
                goal = F(False)
                if len(its) == 1:
                    cands = [a for a in its[0][2] if a.kind == 'num']
                    if len(cands) == 1:
                        goal = z3.And(z3.Not(cands[0].none), cands[0].num == want)
                sol = z3.Solver()
                for h in [smr.num > 0] + p.cond:
                    sol.add(h)
                sol.add(z3.Not(goal))
                r = sol.check()
                msg = ""
                if r == z3.sat:
                    m = sol.model()
                    msg = "getbulk(max_repetitions=%s) with a session value of %s does not ask for the expected repetitions" % (
                        'None' if z3.is_true(m.eval(mr.none, model_completion=True)) else m.eval(mr.num, model_completion=True), m.eval(smr.num, model_completion=True))
                out['obligations'].append(dict(id="%s:getbulk.P%d.G1_repetitions_asked_for" % (tag, pi), fn="%s :: SnmpSession.getbulk" % rel, where="path %d" % pi,
                                               ok=(r == z3.unsat), unknown=(r == z3.unknown), message=msg))
            out['functions'].append(dict(fn='src/gufo/snmp/%s :: SnmpSession.getbulk' % rel, contract=True, mode='pyinit-wp', paths=len(gp)))
        check_user(out)
    except Unsupported as e:
        print(json.dumps(dict(inconclusive="unsupported construct: %s" % e)))
        return 2
    except (SyntaxError, OSError) as e:
        print(json.dumps(dict(inconclusive="cannot read the client: %s" % e)))
        return 2
    if any(o.get('unknown') for o in out['obligations']):
        print(json.dumps(dict(inconclusive="z3 returned unknown")))
        return 2
    out['assumptions'] = [
        "[pyinit] Python truthiness model: IntEnum (0 is falsy), bytes (empty is falsy), User / policer objects (always truthy: no __bool__/__len__, checked), Optional numbers",
        "[pyinit] methods and attributes of a User are pure functions of the object; the compiled sockets store what their constructor is given (Rust side: new() read, pyo3)",
        "[pyinit] refresh() (discovery, set_keys with the deferred user) is read, not under contract",
    ]
    print(json.dumps(out))
    return 0


if __name__ == '__main__':
    sys.exit(main())
