import json, glob, sys
import jsonschema
es=json.load(open('/root/.vp/EVIDENCE.schema.json'))
ms=json.load(open('/root/.vp/MANIFEST.schema.json'))
jsonschema.validate(json.load(open('/verif/MANIFEST.json')), ms)
print('manifest ok')
for f in sorted(glob.glob('/verif/evidence/*.json')):
    d=json.load(open(f))
    try:
        jsonschema.validate(d, es)
        c=d.get('coverage',{})
        print(f.split('/')[-1],'ok', c.get('obligations'), c.get('discharged'))
    except Exception as e:
        print(f,'INVALID',str(e)[:200])
