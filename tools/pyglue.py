#!/usr/bin/env python3
"""pyglue — call-site contracts for the Python client glue of property C19 ("every request of a rate-limited session is
released through the policer").  A small typestate checker over the Python ast, written for this repository.

Contract table (from the property statement; the policer itself is decided by tools/pyvc.py):
  ghost permit : bool   -- "the policer has released one request that has not been sent yet"
  G  guard          `if X._policer: X._policer.wait_sync()` / `if X._policer: await X._policer.wait()`      permit := True
                    (sessions without a policer are not rate-limited: nothing is required of them)
  R  request call   sync : X._sock.get / get_many / get_next / get_bulk (...)
                    async: X._sock.send_get / send_get_many / send_get_next / send_get_bulk (...)
                    requires permit;  ensures not permit
                    a request that raises BlockingIOError was not sent (socket layer, assumed): inside
                    `except BlockingIOError` the permit is what it was before the `try`
  S  `await Y._send(f)`  (async)  callee contract of SnmpSession._send: f is called holding the permit  -> the body of f is
                    checked with permit = True; SnmpSession._send itself is checked with its parameter call `sender()` as an R
  nested functions / lambdas are checked where they are USED (called, or handed to something), with the permit of that point
  W  wiring (sync)  SnmpSession.getnext/getbulk hand `self._policer` to the iterator's `policer` parameter, the iterators store
                    it in `self._policer`; SnmpSession.__init__ (both clients) keeps the given policer, else builds
                    RPSPolicer(float(limit_rps)) when limit_rps is given
Branches join with AND; a loop body that touches the permit is checked from permit = False; any construct outside the subset
that contains a request call makes the check INCONCLUSIVE (exit 2), never an alarm.
Output: JSON {obligations: [{id, fn, ok, where, message}], assumptions, functions, guards} like tools/pyvc.py.
"""
import ast
import json
import os
import sys

REPO = os.environ.get("VERIF_REPO", "/repo")
BASE = os.path.join(REPO, "src/gufo/snmp")
SYNC_REQ = {'get', 'get_many', 'get_next', 'get_bulk'}
ASYNC_REQ = {'send_get', 'send_get_many', 'send_get_next', 'send_get_bulk'}


class Unsupported(Exception):
    pass


def attr_chain(e):
    """a.b.c -> ['a','b','c'] or None."""
    out = []
    while isinstance(e, ast.Attribute):
        out.append(e.attr)
        e = e.value
    if isinstance(e, ast.Name):
        out.append(e.id)
        return list(reversed(out))
    return None


def is_request_call(e, reqs):
    if not isinstance(e, ast.Call):
        return False
    c = attr_chain(e.func)
    return bool(c) and len(c) >= 3 and c[-2] == '_sock' and c[-1] in reqs


POLICER_ALIASES = set()   # local names bound to X._policer in the function under check


def is_policer_ref(e):
    c = attr_chain(e)
    if not c:
        return False
    return c[-1] == '_policer' or (len(c) == 1 and c[0] in POLICER_ALIASES)


def guard_kind(st):
    """Recognise G; returns True if `st` is the policer guard (conditional or not)."""
    def is_wait(x):
        if isinstance(x, ast.Expr):
            x = x.value
        if isinstance(x, ast.Await):
            x = x.value
        if not isinstance(x, ast.Call) or x.args or x.keywords:
            return False
        f = x.func
        return isinstance(f, ast.Attribute) and f.attr in ('wait', 'wait_sync') and is_policer_ref(f.value)
    if is_wait(st):
        return True
    if isinstance(st, ast.If) and not st.orelse and len(st.body) == 1 and is_wait(st.body[0]):
        t = st.test
        if isinstance(t, ast.Compare) and len(t.ops) == 1 and isinstance(t.ops[0], ast.IsNot) and isinstance(t.comparators[0], ast.Constant) and t.comparators[0].value is None:
            t = t.left   # `if p is not None:` guards the same call
        return is_policer_ref(t)
    return False


class Checker:
    def __init__(self, path, reqs, send_param=None):
        self.path = path
        self.reqs = reqs
        self.send_param = send_param   # name of the callable parameter of SnmpSession._send ('sender'), else None
        self.obl = []                  # (id, ok, where, message)
        self.nested = {}               # name -> FunctionDef / Lambda (per function under check)
        self.fn = ''
        self.cur_method = ''
        self.count = 0
        self.cls_methods = {}          # methods of the class under check: a call self._m(..) of one that touches the permit is inlined
        self.ret_stack = []            # permits at the `return` points of the method being inlined
        self.depth = 0

    # ---- expressions: find R calls / nested uses in evaluation order ----------------------------------------------------
    def expr(self, e, permit):
        if e is None:
            return permit
        for node in self.eval_order(e):
            if isinstance(node, ast.Call):
                if is_request_call(node, self.reqs) or (self.send_param and isinstance(node.func, ast.Name) and node.func.id == self.send_param):
                    self.count += 1
                    what = '.'.join(attr_chain(node.func) or ['?'])
                    self.obl.append(("%s.R%d_request_released_by_policer" % (self.fn, self.count), bool(permit),
                                     "%s:%d" % (self.path, node.lineno),
                                     "" if permit else "request call %s(...) at line %d is reachable without a policer release before it" % (what, node.lineno)))
                    permit = False
                    continue
                c = attr_chain(node.func)
                if c and c[-1] == '_send' and len(node.args) == 1:
                    # S: the argument runs holding the permit
                    f = node.args[0]
                    body = self.resolve(f)
                    if body is None:
                        fc = attr_chain(f)
                        if fc and ('_sock' in fc or (len(fc) == 2 and fc[1].startswith('send_'))):
                            # a bound socket method handed to _send: it runs holding the permit (nothing to check inside)
                            permit = False
                            continue
                        raise Unsupported("argument of _send at line %d is not a local function" % node.lineno)
                    self.run_callable(body, True)
                    permit = False
                    continue
                if isinstance(node.func, ast.Name) and node.func.id in self.nested:
                    permit = self.run_callable(self.nested[node.func.id], permit)
                    continue
                if c and len(c) == 2 and c[0] == 'self' and c[1] in self.cls_methods and c[1] != self.cur_method:
                    callee = self.cls_methods[c[1]]
                    if self.touches(callee.body):
                        # a private helper of the same class that waits on the policer and / or sends: its body is checked here,
                        # with the permit of the call site (one call level per step, at most three deep)
                        if self.depth >= 3:
                            raise Unsupported("helper methods nested more than three deep at line %d" % node.lineno)
                        permit = self.inline(callee, permit)
                        continue
                # a nested function handed to something else (e.g. loop.add_writer(fd, callback)): it may run from here on
                for a in list(node.args) + [k.value for k in node.keywords]:
                    if isinstance(a, ast.Name) and a.id in self.nested:
                        permit = self.run_callable(self.nested[a.id], permit)
                    elif isinstance(a, ast.Lambda) and self.contains_request(a):
                        permit = self.run_callable(a, permit)
        return permit

    def eval_order(self, e):
        """Calls of e in evaluation order (arguments before the call itself); lambdas are not entered."""
        out = []

        def walk(n):
            if isinstance(n, ast.Lambda):
                return
            if isinstance(n, ast.Call):
                walk(n.func)
                for a in n.args:
                    walk(a)
                for k in n.keywords:
                    walk(k.value)
                out.append(n)
                return
            for c in ast.iter_child_nodes(n):
                walk(c)
        walk(e)
        return out

    def resolve(self, f):
        if isinstance(f, ast.Name) and f.id in self.nested:
            return self.nested[f.id]
        if isinstance(f, ast.Lambda):
            return f
        c = attr_chain(f)
        if c and len(c) == 2 and c[0] == 'self' and c[1] in self.cls_methods:
            return self.cls_methods[c[1]]     # a bound method of the same class handed over as the callable
        return None

    def inline(self, m, permit):
        self.ret_stack.append([])
        saved = self.nested
        self.nested = dict(saved)
        for st in ast.walk(m):
            if st is not m and isinstance(st, (ast.FunctionDef, ast.AsyncFunctionDef)):
                self.nested[st.name] = st
        self.depth += 1
        try:
            r = self.block(m.body, permit)
        finally:
            self.depth -= 1
            self.nested = saved
            rets = self.ret_stack.pop()
        outs = rets + ([r] if r is not None else [])
        return all(outs) if outs else False

    def contains_request(self, node):
        for n in ast.walk(node):
            if isinstance(n, ast.Call) and (is_request_call(n, self.reqs) or (self.send_param and isinstance(n.func, ast.Name) and n.func.id == self.send_param)):
                return True
        return False

    def touches(self, stmts, _seen=None):
        _seen = _seen if _seen is not None else set()
        for st in stmts:
            if guard_kind(st):
                return True
            for n in ast.walk(st):
                if guard_kind(n):
                    return True
                if isinstance(n, ast.Call):
                    cc = attr_chain(n.func)
                    if cc and len(cc) == 2 and cc[0] == 'self' and cc[1] in self.cls_methods and cc[1] not in _seen and cc[1] not in ('_send', '_recv'):
                        _seen.add(cc[1])
                        if self.touches(self.cls_methods[cc[1]].body, _seen):
                            return True
                    if is_request_call(n, self.reqs) or (self.send_param and isinstance(n.func, ast.Name) and n.func.id == self.send_param):
                        return True
                    c = attr_chain(n.func)
                    if c and c[-1] == '_send':
                        return True
                    if isinstance(n.func, ast.Name) and n.func.id in self.nested and self.contains_request(self.nested[n.func.id]):
                        return True
                    for a in list(n.args):
                        if isinstance(a, ast.Name) and a.id in self.nested and self.contains_request(self.nested[a.id]):
                            return True
        return False

    def run_callable(self, f, permit):
        if isinstance(f, ast.Lambda):
            return self.expr(f.body, permit)
        if f.name in self.cls_methods and self.cls_methods[f.name] is f:
            return self.inline(f, permit)
        r = self.block(f.body, permit)
        return False if r is None else r

    # ---- statements: returns the permit at the end of the block, or None if every path left (return / raise) -------------
    def block(self, stmts, permit):
        for st in stmts:
            if permit is None:
                return None
            permit = self.stmt(st, permit)
        return permit

    def stmt(self, st, permit):
        if guard_kind(st):
            return True
        if isinstance(st, (ast.FunctionDef, ast.AsyncFunctionDef)):
            return permit   # checked where it is used
        if isinstance(st, ast.Expr):
            if isinstance(st.value, ast.Constant):
                return permit
            return self.expr(st.value, permit)
        if isinstance(st, (ast.Assign, ast.AnnAssign, ast.AugAssign)):
            return self.expr(st.value, permit)
        if isinstance(st, ast.Return):
            p = self.expr(st.value, permit)
            if self.ret_stack:
                self.ret_stack[-1].append(p)
            return None
        if isinstance(st, ast.Raise):
            self.expr(st.exc, permit)
            return None
        if isinstance(st, (ast.Pass, ast.Import, ast.ImportFrom, ast.Global, ast.Nonlocal, ast.Assert, ast.Delete)):
            return permit
        if isinstance(st, ast.If):
            p = self.expr(st.test, permit)
            a = self.block(st.body, p)
            b = self.block(st.orelse, p)
            if a is None:
                return b
            if b is None:
                return a
            return a and b
        if isinstance(st, (ast.While, ast.For, ast.AsyncFor)):
            body = st.body + st.orelse
            if isinstance(st, ast.While):
                permit = self.expr(st.test, permit)
            else:
                permit = self.expr(st.iter, permit)
            if not self.touches(body):
                return permit
            self.block(st.body, False)
            self.block(st.orelse, False)
            return False
        if isinstance(st, (ast.With, ast.AsyncWith)):
            for it in st.items:
                permit = self.expr(it.context_expr, permit)
            return self.block(st.body, permit)
        if isinstance(st, ast.Try):
            before = permit
            after_body = self.block(st.body, permit)
            exits = []
            if after_body is not None:
                e = self.block(st.orelse, after_body)
                if e is not None:
                    exits.append(e)
            for h in st.handlers:
                names = []
                if h.type is not None:
                    for t in (h.type.elts if isinstance(h.type, ast.Tuple) else [h.type]):
                        c = attr_chain(t)
                        names.append(c[-1] if c else '?')
                # BlockingIOError from a request: it was not sent, the permit is still held (only if the body is that single request)
                single = len(st.body) == 1 and self.touches(st.body)
                hp = before if (names == ['BlockingIOError'] and single) else (before and not self.touches(st.body))
                e = self.block(h.body, hp)
                if e is not None:
                    exits.append(e)
            res = None
            for e in exits:
                res = e if res is None else (res and e)
            if st.finalbody:
                if self.touches(st.finalbody):
                    raise Unsupported("request call inside finally at line %d" % st.lineno)
            return res
        if self.touches([st]):
            raise Unsupported("statement %s at %s:%d contains a request call" % (type(st).__name__, self.path, st.lineno))
        return permit

    def check_function(self, cls, fn, cls_def=None):
        self.fn = "%s.%s" % (cls, fn.name)
        self.count = 0
        self.nested = {}
        self.cur_method = fn.name
        self.cls_methods = {m.name: m for m in (cls_def.body if cls_def is not None else []) if isinstance(m, (ast.FunctionDef, ast.AsyncFunctionDef))}
        POLICER_ALIASES.clear()
        for st in ast.walk(fn):
            if isinstance(st, ast.Assign) and len(st.targets) == 1 and isinstance(st.targets[0], ast.Name):
                c = attr_chain(st.value)
                if c and c[-1] == '_policer':
                    POLICER_ALIASES.add(st.targets[0].id)
        for st in ast.walk(fn):
            if st is not fn and isinstance(st, (ast.FunctionDef, ast.AsyncFunctionDef)):
                self.nested[st.name] = st
        self.block(fn.body, False)


def methods(tree):
    for cls in tree.body:
        if isinstance(cls, ast.ClassDef):
            for m in cls.body:
                if isinstance(m, (ast.FunctionDef, ast.AsyncFunctionDef)):
                    yield cls, m


def param_index(fn, name):
    names = [a.arg for a in fn.args.args]
    return names.index(name) - 1 if name in names else None   # minus self


def main():
    out = dict(obligations=[], assumptions=[], functions=[], guards=[], solver_ms=0)
    try:
        files = {
            'sync': ['sync_client/client.py', 'sync_client/getnext.py', 'sync_client/getbulk.py'],
            'async': ['async_client/client.py'],
        }
        trees = {}
        for kind, fl in files.items():
            for f in fl:
                p = os.path.join(BASE, f)
                if not os.path.exists(p):
                    raise Unsupported("%s is gone" % f)
                trees[f] = ast.parse(open(p).read())
        n_req = 0
        for kind, fl in files.items():
            for f in fl:
                for cls, m in methods(trees[f]):
                    reqs = SYNC_REQ if kind == 'sync' else ASYNC_REQ
                    send_param = None
                    if kind == 'async' and cls.name == 'SnmpSession' and m.name == '_send':
                        ps = [a.arg for a in m.args.args]
                        if len(ps) != 2:
                            raise Unsupported("signature of async SnmpSession._send changed")
                        send_param = ps[1]
                    ck = Checker(f, reqs, send_param)
                    has = ck.contains_request(m) or any(isinstance(n, ast.Call) and (attr_chain(n.func) or [''])[-1] == '_send' for n in ast.walk(m))
                    if not has:
                        continue
                    if m.name.startswith('_') and not m.name.startswith('__') and m.name not in ('_send', '_recv'):
                        # a private helper that other methods of the class call (or hand over as a callable) is checked at those
                        # places, with the permit held there
                        used = [mm.name for mm in cls.body if isinstance(mm, (ast.FunctionDef, ast.AsyncFunctionDef)) and mm is not m
                                and any(attr_chain(n) == ['self', m.name] for n in ast.walk(mm) if isinstance(n, ast.Attribute))]
                        if used:
                            continue
                    ck.check_function(cls.name, m, cls)
                    for (oid, ok, where, msg) in ck.obl:
                        n_req += 1
                        out['obligations'].append(dict(id="%s:%s" % (kind, oid), fn="%s :: %s.%s" % (f, cls.name, m.name), ok=ok, where=where, message=msg))
                    out['functions'].append(dict(fn="src/gufo/snmp/%s :: %s.%s" % (f, cls.name, m.name), contract=True, mode='pyglue-typestate', requests=len(ck.obl)))
        # every request method of the socket is used somewhere (vacuity guard)
        out['guards'].append(dict(guard='request-call-sites-found', count=n_req))
        if n_req < 8:
            raise Unsupported("only %d request call sites found (expected the 4 sync and 4 async request kinds, and _send)" % n_req)

        # ---- W: wiring of the policer (sync iterators, constructors) ---------------------------------------------------
        def find(tree, cls, name):
            for c, m in methods(tree):
                if c.name == cls and m.name == name:
                    return m
            return None

        def ob(oid, fn, ok, where, msg):
            out['obligations'].append(dict(id=oid, fn=fn, ok=ok, where=where, message="" if ok else msg))
        sync_client = trees['sync_client/client.py']
        for itname, itfile, meth in (('GetNextIter', 'sync_client/getnext.py', 'getnext'), ('GetBulkIter', 'sync_client/getbulk.py', 'getbulk')):
            init = find(trees[itfile], itname, '__init__')
            if init is None:
                raise Unsupported("%s.__init__ is gone" % itname)
            idx = param_index(init, 'policer')
            if idx is None:
                raise Unsupported("%s.__init__ has no `policer` parameter" % itname)
            stores = [st for st in ast.walk(init) if isinstance(st, ast.Assign) and len(st.targets) == 1 and attr_chain(st.targets[0]) == ['self', '_policer']]
            ok = len(stores) == 1 and isinstance(stores[0].value, ast.Name) and stores[0].value.id == 'policer'
            ob("sync:W_%s_keeps_the_policer" % itname, "%s :: %s.__init__" % (itfile, itname), ok, "%s:%d" % (itfile, init.lineno),
               "%s.__init__ does not store its `policer` argument in self._policer" % itname)
            m = find(sync_client, 'SnmpSession', meth)
            if m is None:
                raise Unsupported("sync SnmpSession.%s is gone" % meth)
            # every place of the sync client that builds this iterator (getnext / getbulk, and anything else that does)
            calls = [(mm.name, n) for _c, mm in methods(sync_client) for n in ast.walk(mm)
                     if isinstance(n, ast.Call) and isinstance(n.func, ast.Name) and n.func.id == itname]
            if not any(mn == meth for mn, _ in calls):
                raise Unsupported("sync SnmpSession.%s does not build a %s" % (meth, itname))
            for meth, c in calls:
                arg = None
                if len(c.args) > idx:
                    arg = c.args[idx]
                for k in c.keywords:
                    if k.arg == 'policer':
                        arg = k.value
                ok = arg is not None and attr_chain(arg) == ['self', '_policer']
                if not ok and isinstance(arg, ast.Name):
                    # a local bound once to self._policer
                    mm = find(sync_client, 'SnmpSession', meth)
                    binds = [n for n in ast.walk(mm) if isinstance(n, ast.Assign) and any(isinstance(t, ast.Name) and t.id == arg.id for t in n.targets)]
                    ok = len(binds) == 1 and attr_chain(binds[0].value) == ['self', '_policer']
                ob("sync:W_%s_hands_the_policer_to_%s" % (meth, itname), "sync_client/client.py :: SnmpSession.%s" % meth, ok,
                   "sync_client/client.py:%d" % c.lineno, "%s(...) at line %d is not given self._policer as its policer" % (itname, c.lineno))
        # ---- L: a Future awaited inside a loop is created in that loop iteration (C01: the call returns; an already-done Future
        #         awaited again never yields, the coroutine spins and the timeout cannot fire) ---------------------------------------
        at = trees['async_client/client.py']
        n_l = 0
        for cls, m in methods(at):
            for loop_ in [n for n in ast.walk(m) if isinstance(n, ast.While)]:
                awaited = [n.value.id for n in ast.walk(loop_) if isinstance(n, ast.Await) and isinstance(n.value, ast.Name)]
                for name in sorted(set(awaited)):
                    created_in = [n for n in ast.walk(loop_) if isinstance(n, (ast.Assign, ast.AnnAssign)) and
                                  any(isinstance(t, ast.Name) and t.id == name for t in (n.targets if isinstance(n, ast.Assign) else [n.target])) and
                                  isinstance(n.value, ast.Call) and (attr_chain(n.value.func) or [''])[-1] == 'create_future']
                    created_any = [n for n in ast.walk(m) if isinstance(n, (ast.Assign, ast.AnnAssign)) and
                                   any(isinstance(t, ast.Name) and t.id == name for t in (n.targets if isinstance(n, ast.Assign) else [n.target])) and
                                   isinstance(n.value, ast.Call) and (attr_chain(n.value.func) or [''])[-1] == 'create_future']
                    if not created_any:
                        continue
                    n_l += 1
                    ob("async:L_%s_%s_awaits_a_future_of_this_iteration" % (m.name, name), "async_client/client.py :: %s.%s" % (cls.name, m.name),
                       len(created_in) >= 1, "async_client/client.py:%d" % loop_.lineno,
                       "`await %s` inside the loop at line %d awaits a Future created outside the loop (the second wait never yields)" % (name, loop_.lineno))
        if n_l < 1:
            raise Unsupported("async client: no awaited Future inside a loop found (the receive loop changed shape)")
        # ---- D: deferred user (C13): refresh() discovers the engine id, THEN installs the deferred user's keys, THEN forgets it ----
        for f, kind in (('sync_client/client.py', 'sync'), ('async_client/client.py', 'async')):
            m = find(trees[f], 'SnmpSession', 'refresh')
            if m is None:
                raise Unsupported("%s SnmpSession.refresh is gone" % f)
            events = []    # (kind, lineno, node) in source order of the straight-line / if-nested body
            aliases = {'self._deferred_user'}
            sock_alias = set()     # locals bound to self._sock (one level: `sock = self._sock`)

            def on_sock(c, meth):
                return bool(c) and c[-1] == meth and ((len(c) >= 3 and c[-2] == '_sock') or (len(c) == 2 and c[0] in sock_alias))

            def is_alias(e):
                c = attr_chain(e)
                return bool(c) and '.'.join(c) in aliases

            d_methods = {mm.name: mm for c2, mm in methods(trees[f]) if c2.name == 'SnmpSession'}
            d_seen = set()

            def scan(stmts):
                for st in stmts:
                    if isinstance(st, ast.If):
                        scan(st.body)
                        scan(st.orelse)
                        continue
                    if isinstance(st, (ast.Return, ast.Pass)) or (isinstance(st, ast.Expr) and isinstance(st.value, ast.Constant)):
                        continue
                    if isinstance(st, ast.Assign):
                        # aliasing: x = self._deferred_user ; tuple form x, self._deferred_user = self._deferred_user, None
                        tg, vals = st.targets[0], st.value
                        pairs = list(zip(tg.elts, vals.elts)) if isinstance(tg, ast.Tuple) and isinstance(vals, ast.Tuple) and len(tg.elts) == len(vals.elts) else [(tg, vals)]
                        for t, v in pairs:
                            if isinstance(t, ast.Name) and is_alias(v):
                                aliases.add(t.id)
                            if isinstance(t, ast.Name) and attr_chain(v) == ['self', '_sock']:
                                sock_alias.add(t.id)
                        for t, v in pairs:
                            if attr_chain(t) == ['self', '_deferred_user']:
                                events.append(('forget', st.lineno, v))
                    for n in ast.walk(st):
                        if isinstance(n, ast.Call):
                            c = attr_chain(n.func)
                            if c and len(c) == 2 and c[0] == 'self' and c[1] in d_methods and c[1] not in ('refresh', '_send', '_recv') and c[1] not in d_seen:
                                # a private helper of the session: its statements happen here
                                d_seen.add(c[1])
                                scan(d_methods[c[1]].body)
                                d_seen.discard(c[1])
                                continue
                            if on_sock(c, 'refresh'):
                                events.append(('roundtrip', n.lineno, n))
                            if c and c[-1] in ('_send', '_recv') and n.args:
                                a = attr_chain(n.args[0])
                                if a and a[-1] in ('send_refresh', 'recv_refresh'):
                                    events.append(('roundtrip' if a[-1] == 'recv_refresh' else 'probe', n.lineno, n))
                            if on_sock(c, 'set_keys'):
                                events.append(('set_keys', n.lineno, n))
            scan(m.body)
            # order of occurrence = order of traversal (a helper's statements happen where it is called); the position replaces the line
            events = [(k, i, nd, ln) for i, (k, ln, nd) in enumerate(events)]
            events = [(k, i, nd) for (k, i, nd, ln) in events]
            sk = [e for e in events if e[0] == 'set_keys']
            fn = "%s :: SnmpSession.refresh" % f
            if len(sk) != 1:
                raise Unsupported("%s: refresh() calls set_keys %d times" % (f, len(sk)))
            call = sk[0][2]
            want = ['name', 'get_auth_alg', 'get_auth_key', 'get_priv_alg', 'get_priv_key']
            okargs = len(call.args) == 5 and not call.keywords
            for a, w in zip(call.args, want):
                t = a.func if isinstance(a, ast.Call) else a
                okargs = okargs and isinstance(t, ast.Attribute) and t.attr == w and is_alias(t.value)
            ob("%s:D_refresh_installs_the_deferred_users_keys" % kind, fn, okargs, "%s:%d" % (f, call.lineno),
               "set_keys is not given name / auth alg / auth key / priv alg / priv key of the deferred user")
            ob("%s:D_refresh_discovers_the_engine_id_before_installing_keys" % kind, fn,
               any(e[0] == 'roundtrip' and e[1] < sk[0][1] for e in events), "%s:%d" % (f, call.lineno),
               "no discovery round trip before set_keys")
            forgets = [e for e in events if e[0] == 'forget']
            ob("%s:D_refresh_forgets_the_deferred_user_only_after_its_keys_are_installed" % kind, fn,
               len(forgets) >= 1 and all(e[1] > sk[0][1] for e in forgets), "%s:%d" % (f, (forgets[0][1] if forgets else m.lineno)),
               "self._deferred_user is cleared before set_keys has run (a failed discovery loses the user), or never")
        # ---- B: frame of the bulk buffer (C05 / C06): the iterator yields what the socket returned, nothing is added to it ----------
        for f, itname, meth in (('sync_client/getbulk.py', 'GetBulkIter', '__next__'), ('async_client/client.py', 'GetBulkIter', '__anext__')):
            m = find(trees[f], itname, meth)
            if m is None:
                raise Unsupported("%s %s.%s is gone" % (f, itname, meth))
            bad = []
            n_assign = 0
            # the frame is a property of the CLASS: whichever method of the iterator touches the buffer (the refill may live in a
            # private helper) may only assign it the socket result or pop from it; __init__ may set it to an empty list
            cls_nodes = []
            for c3, mm in methods(trees[f]):
                if c3.name != itname:
                    continue
                for n in ast.walk(mm):
                    if mm.name == '__init__' and isinstance(n, (ast.Assign, ast.AnnAssign)):
                        tg = n.targets if isinstance(n, ast.Assign) else [n.target]
                        if any(attr_chain(t) == ['self', '_buffer'] for t in tg):
                            if not (isinstance(n.value, ast.List) and not n.value.elts):
                                bad.append(n.lineno)
                            continue
                    cls_nodes.append(n)
            for n in cls_nodes:
                if isinstance(n, (ast.Assign, ast.AugAssign, ast.AnnAssign)):
                    tgts = n.targets if isinstance(n, ast.Assign) else [n.target]
                    for t in tgts:
                        if attr_chain(t) == ['self', '_buffer']:
                            v = n.value
                            if isinstance(v, ast.Await):
                                v = v.value
                            c = attr_chain(v.func) if isinstance(v, ast.Call) else None
                            from_socket = bool(c) and ((len(c) >= 3 and c[-2] == '_sock' and c[-1] == 'get_bulk') or c[-1] == '_recv')
                            if isinstance(n, ast.Assign) and from_socket:
                                n_assign += 1
                            else:
                                bad.append(n.lineno)
                if isinstance(n, ast.Call):
                    c = attr_chain(n.func)
                    if c and len(c) >= 3 and c[-3:-1] == ['self', '_buffer'] and c[-1] != 'pop':
                        bad.append(n.lineno)
            ob("%s:B_%s_buffer_holds_only_what_the_socket_returned" % ('sync' if f.startswith('sync') else 'async', itname),
               "%s :: %s.%s" % (f, itname, meth), n_assign >= 1 and not bad, "%s:%d" % (f, m.lineno),
               "self._buffer is changed by something else than the assignment of the socket result / pop(0) at line(s) %s" % bad)
        # ---- P: pass-through (C07 / C02): get / get_many hand the caller exactly what the socket returned -----------------------
        def is_sock_call(e, names):
            if isinstance(e, ast.Await):
                e = e.value
            if not isinstance(e, ast.Call):
                return False
            c = attr_chain(e.func)
            if c and len(c) >= 3 and c[-2] == '_sock' and c[-1] in names:
                return True
            # async: await self._recv(self._sock.recv_x)
            if c and c[-1] == '_recv' and len(e.args) == 1:
                a = attr_chain(e.args[0])
                return bool(a) and len(a) >= 3 and a[-2] == '_sock' and a[-1] in names
            return False
        for f, kind, table in (('sync_client/client.py', 'sync', {'get': {'get'}, 'get_many': {'get_many'}}),
                               ('async_client/client.py', 'async', {'get': {'recv_get'}, 'get_many': {'recv_get_many'}})):
            for meth, names in table.items():
                m = find(trees[f], 'SnmpSession', meth)
                if m is None:
                    raise Unsupported("%s SnmpSession.%s is gone" % (f, meth))
                own = []   # return statements of the method itself (not of nested functions)

                def walk(n):
                    for c in ast.iter_child_nodes(n):
                        if isinstance(c, (ast.FunctionDef, ast.AsyncFunctionDef, ast.Lambda)):
                            continue
                        if isinstance(c, ast.Return):
                            own.append(c)
                        walk(c)
                walk(m)
                def passes(r):
                    if r.value is None:
                        return False
                    if is_sock_call(r.value, names):
                        return True
                    if isinstance(r.value, ast.Name):
                        nm = r.value.id
                        binds = [n for n in ast.walk(m) if isinstance(n, (ast.Assign, ast.AnnAssign, ast.AugAssign)) and
                                 any(isinstance(t, ast.Name) and t.id == nm for t in (n.targets if isinstance(n, ast.Assign) else [n.target]))]
                        uses = [n for n in ast.walk(m) if isinstance(n, (ast.Subscript, ast.Attribute)) and isinstance(n.value, ast.Name) and n.value.id == nm
                                and isinstance(getattr(n, 'ctx', None), (ast.Store, ast.Del))]
                        calls = [n for n in ast.walk(m) if isinstance(n, ast.Call) and isinstance(n.func, ast.Attribute) and isinstance(n.func.value, ast.Name)
                                 and n.func.value.id == nm]
                        return len(binds) == 1 and isinstance(binds[0], ast.Assign) and is_sock_call(binds[0].value, names) and not uses and not calls
                    return False
                ok = len(own) >= 1 and all(passes(r) for r in own)
                ob("%s:P_%s_returns_the_socket_result_unchanged" % (kind, meth), "%s :: SnmpSession.%s" % (f, meth), ok, "%s:%d" % (f, m.lineno),
                   "SnmpSession.%s does not return the result of the socket call as it is" % meth)
        # ---- Q: get_many hands the caller's oids to the socket, once: `oids` is an Iterable (possibly one-shot) and may be
        #         consumed exactly once, by the list(...) that reaches the socket (C08 / C03: what is asked for is what is sent)
        for f, kind, sockcall in (('sync_client/client.py', 'sync', 'get_many'), ('async_client/client.py', 'async', 'send_get_many')):
            m = find(trees[f], 'SnmpSession', 'get_many')
            uses = [n for n in ast.walk(m) if isinstance(n, ast.Name) and n.id == 'oids' and isinstance(n.ctx, ast.Load)]
            calls = [n for n in ast.walk(m) if isinstance(n, ast.Call) and (attr_chain(n.func) or [''])[-1] == sockcall and len(n.args) == 1]
            ok = len(uses) == 1 and len(calls) == 1
            if ok:
                a = calls[0].args[0]
                direct = isinstance(a, ast.Call) and isinstance(a.func, ast.Name) and a.func.id == 'list' and len(a.args) == 1 and a.args[0] is uses[0]
                # or: req = list(oids) at the top level of the method, and the socket is given `req`
                via = None
                for st in m.body:
                    if isinstance(st, ast.Assign) and len(st.targets) == 1 and isinstance(st.targets[0], ast.Name) and isinstance(st.value, ast.Call) \
                            and isinstance(st.value.func, ast.Name) and st.value.func.id == 'list' and len(st.value.args) == 1 and st.value.args[0] is uses[0]:
                        via = st.targets[0].id
                ok = direct or (via is not None and isinstance(a, ast.Name) and a.id == via)
                # the consumption must not sit inside a nested function: _send may run the sender twice (full send buffer)
                nested = [n for n in ast.walk(m) if n is not m and isinstance(n, (ast.FunctionDef, ast.AsyncFunctionDef, ast.Lambda))]
                if any(uses[0] in list(ast.walk(n)) for n in nested):
                    ok = False
            ob("%s:Q_get_many_consumes_the_oids_once_into_the_request" % kind, "%s :: SnmpSession.get_many" % f, ok, "%s:%d" % (f, m.lineno),
               "`oids` (an Iterable, possibly one-shot) is used %d time(s), is consumed inside a function that may run twice, or does not reach the socket as list(oids)" % len(uses))
        for f in ('sync_client/client.py', 'async_client/client.py'):
            init = find(trees[f], 'SnmpSession', '__init__')
            if init is None:
                raise Unsupported("%s SnmpSession.__init__ is gone" % f)
            stores = [st for st in ast.walk(init) if isinstance(st, (ast.Assign, ast.AnnAssign)) and attr_chain(st.targets[0] if isinstance(st, ast.Assign) else st.target) == ['self', '_policer']]
            vals = [ast.dump(st.value) for st in stores if st.value is not None]
            want_given = ast.dump(ast.parse('policer').body[0].value)
            want_rps = ast.dump(ast.parse('RPSPolicer(float(limit_rps))').body[0].value)
            want_none = ast.dump(ast.parse('None').body[0].value)
            ok = sorted(vals) == sorted([want_none, want_given, want_rps])
            # and the given policer wins: `if policer: ... elif limit_rps: ...`
            ifs = [st for st in ast.walk(init) if isinstance(st, ast.If) and isinstance(st.test, ast.Name) and st.test.id == 'policer']
            ok = ok and len(ifs) == 1 and len(ifs[0].orelse) == 1 and isinstance(ifs[0].orelse[0], ast.If) \
                and isinstance(ifs[0].orelse[0].test, ast.Name) and ifs[0].orelse[0].test.id == 'limit_rps'
            ob("%s:W_session_policer_from_arguments" % ('sync' if f.startswith('sync') else 'async'), "%s :: SnmpSession.__init__" % f, ok,
               "%s:%d" % (f, init.lineno), "self._policer is not {policer if given, else RPSPolicer(float(limit_rps)) if limit_rps, else None}")
    except Unsupported as e:
        print(json.dumps(dict(inconclusive="unsupported construct: %s" % e)))
        return 2
    except SyntaxError as e:
        print(json.dumps(dict(inconclusive="python syntax error: %s" % e)))
        return 2
    out['assumptions'] = [
        "[pyglue] a request call that raises BlockingIOError did not send anything (socket layer)",
        "[pyglue] sessions without a policer (policer=None, limit_rps=None) are not rate-limited: nothing is required of them",
        "[pyglue] v3 refresh()/set_keys() traffic (engine discovery, time sync) is not a caller request and is not policed",
        "[pyglue] Python control flow is approximated conservatively: branches join with AND, a loop body touching the permit starts without it",
    ]
    print(json.dumps(out))
    return 0


if __name__ == '__main__':
    sys.exit(main())
