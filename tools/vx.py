#!/usr/bin/env python3
"""vx — mechanical extraction of real gufo_snmp functions into one Verus file per unit.

The text of every kept item is copied verbatim from the *current* /repo/src working tree.
The only changes made are the documented rules (DESIGN.md §3.1):

  D1  only selected items are copied (tests, benches, #[pymodule] dropped)
  D2  attributes without run-time semantics are removed (#[pyclass] #[pymethods] #[new]
      #[pyo3(..)] #[pyfunction] #[inline] #[allow(..)] #[enum_dispatch(..)])
  D3  `use <extern crate>::` -> `use crate::<shim>::`; `mod x;` lines removed (modules are inlined)
  N1  `.map_err(Err::Failure)` -> `.map_err(|e| Err::Failure(e))`
  N2  `format!(..)` -> `crate::shim::fmt_opaque()`
  N3  `pub(crate)` -> `pub`
  N5  closure parameter `|_|` -> `|_e|`
  N4  contracts / loop clauses / ghost hints inserted from the overlay (ghost code only)
  + unit-specific literal rewrites listed in the unit file under [[rewrite]] (each reported)

Every inserted or rewritten piece is recorded, and `undo()` re-derives the source text from
the emitted text to show that nothing else changed.
"""
import os
import re
import sys
import json
import tomllib

REPO = os.environ.get("VERIF_REPO", "/repo")
HERE = os.path.dirname(os.path.dirname(os.path.abspath(__file__)))
CONTRACTS = os.path.join(HERE, "contracts", "verus")


class LostAnchor(Exception):
    pass


# ----------------------------------------------------------------------------------------
# Lexical scanning (comment / string / char / lifetime aware)
# ----------------------------------------------------------------------------------------

def scan_tokens(text, start=0, end=None):
    """Yield (kind, a, b) for code-relevant regions.  kind in
    'code' (single significant char), 'skip' (comment/string/char literal)."""
    i = start
    n = len(text) if end is None else end
    while i < n:
        c = text[i]
        if c == '/' and i + 1 < n and text[i + 1] == '/':
            j = text.find('\n', i)
            j = n if j < 0 or j > n else j
            yield ('skip', i, j)
            i = j
        elif c == '/' and i + 1 < n and text[i + 1] == '*':
            depth = 1
            j = i + 2
            while j < n and depth:
                if text.startswith('/*', j):
                    depth += 1
                    j += 2
                elif text.startswith('*/', j):
                    depth -= 1
                    j += 2
                else:
                    j += 1
            yield ('skip', i, j)
            i = j
        elif c == '"' or (c in 'rb' and re.match(r'(br|rb|r|b)#*"', text[i:i + 8]) and
                          (i == 0 or not (text[i - 1].isalnum() or text[i - 1] == '_'))):
            m = re.match(r'(br|rb|r|b)?(#*)"', text[i:i + 8])
            raw = m.group(1) and 'r' in m.group(1)
            hashes = m.group(2)
            j = i + m.end()
            if raw:
                term = '"' + hashes
                k = text.find(term, j)
                j = n if k < 0 else k + len(term)
            else:
                while j < n and text[j] != '"':
                    j += 2 if text[j] == '\\' else 1
                j += 1
            yield ('skip', i, j)
            i = j
        elif c == "'":
            m = re.match(r"'(\\.[^']*|[^\\'])'", text[i:i + 12])
            if m:
                yield ('skip', i, i + m.end())
                i += m.end()
            else:  # lifetime
                yield ('code', i, i + 1)
                i += 1
        else:
            yield ('code', i, i + 1)
            i += 1


def match_brace(text, open_pos):
    """Return index just past the brace matching text[open_pos] ('{', '(' or '[')."""
    pairs = {'{': '}', '(': ')', '[': ']'}
    o = text[open_pos]
    c = pairs[o]
    depth = 0
    for kind, a, b in scan_tokens(text, open_pos):
        if kind != 'code':
            continue
        ch = text[a]
        if ch == o:
            depth += 1
        elif ch == c:
            depth -= 1
            if depth == 0:
                return a + 1
    raise LostAnchor("unbalanced %s at %d" % (o, open_pos))


def code_mask(text):
    """bytearray: 1 where text[i] is code (not comment/string)."""
    m = bytearray(len(text))
    for kind, a, b in scan_tokens(text):
        if kind == 'code':
            m[a] = 1
    return m


def split_items(text, start, end):
    """Split text[start:end] (a file or an impl/trait/mod body) into items.
    Returns list of dict(a, b, hdr_a, key, body_open) where [a,b) covers attributes+item."""
    items = []
    i = start
    mask_iter = None
    pos = start
    toks = list(scan_tokens(text, start, end))
    ti = 0
    n = len(toks)

    def skip_ws(ti):
        while ti < n and (toks[ti][0] == 'skip' and not text[toks[ti][1]] in '"\'rb'
                          or (toks[ti][0] == 'code' and text[toks[ti][1]].isspace())):
            # comments are attached to the following item (kept verbatim)
            ti += 1
        return ti

    while True:
        # leading whitespace (not comments) is not part of the item
        while ti < n and toks[ti][0] == 'code' and text[toks[ti][1]].isspace():
            ti += 1
        if ti >= n:
            break
        a = toks[ti][1]
        # comments + attributes
        hdr_ti = ti
        while True:
            hdr_ti = skip_ws(hdr_ti)
            if hdr_ti < n and text[toks[hdr_ti][1]] == '#' and toks[hdr_ti][0] == 'code':
                # attribute: #[ ... ] or #![...]
                k = toks[hdr_ti][1] + 1
                if text[k] == '!':
                    k += 1
                while text[k].isspace():
                    k += 1
                if text[k] != '[':
                    break
                e = match_brace(text, k)
                while hdr_ti < n and toks[hdr_ti][1] < e:
                    hdr_ti += 1
                continue
            break
        if hdr_ti >= n:
            break
        hdr_a = toks[hdr_ti][1]
        # scan header to first '{' or ';' at depth 0 of () []
        depth = 0
        tj = hdr_ti
        body_open = None
        b = None
        is_use = re.match(r'(pub(\([a-z]+\))?\s+)?use\b', text[hdr_a:hdr_a + 24]) is not None
        while tj < n:
            kind, x, y = toks[tj]
            if kind == 'code':
                ch = text[x]
                if is_use:
                    if ch == ';':
                        b = x + 1
                        break
                elif ch in '([':
                    depth += 1
                elif ch in ')]':
                    depth -= 1
                elif ch == '{' and depth == 0:
                    body_open = x
                    b = match_brace(text, x)
                    break
                elif ch == ';' and depth == 0:
                    b = x + 1
                    break
            tj += 1
        if b is None:
            trailing = text[hdr_a:end].strip()
            if trailing:
                raise LostAnchor("unterminated item: %r" % trailing[:60])
            break
        # macro invocation `name!( ... );` or `name! { }` handled by the same logic
        hdr_text = text[hdr_a:(body_open if body_open is not None else b - 1)]
        key = re.sub(r'\s+', ' ', hdr_text).strip()
        # struct Foo { .. } may be followed by nothing; tuple struct ends at ';' (handled)
        items.append(dict(a=a, b=b, hdr_a=hdr_a, key=key, body_open=body_open))
        while ti < n and toks[ti][1] < b:
            ti += 1
    return items


def fn_name_of(key):
    m = re.search(r'\bfn\s+([A-Za-z_][A-Za-z0-9_]*)', key)
    return m.group(1) if m else None


# ----------------------------------------------------------------------------------------
# Edits
# ----------------------------------------------------------------------------------------

class Edits:
    def __init__(self, text, path):
        self.text = text
        self.path = path
        self.edits = []  # (a, b, replacement, tag)

    def add(self, a, b, repl, tag):
        for (x, y, _, t) in self.edits:
            if a < y and x < b and not (a == b and (a == x or a == y)) and not (x == y and (x == a or x == b)):
                raise LostAnchor("overlapping edits in %s at %d..%d (%s vs %s)" % (self.path, a, b, tag, t))
        self.edits.append((a, b, repl, tag))

    def drop_range(self, a, b, tag):
        """Delete [a,b) entirely; edits that lie inside the range are discarded."""
        self.edits = [e for e in self.edits if not (a <= e[0] and e[1] <= b)]
        self.add(a, b, '', tag)

    def render(self, a, b):
        """Return list of (text, origin) pieces for range [a,b) with edits applied."""
        pieces = []
        eds = sorted([e for e in self.edits if a <= e[0] and e[1] <= b], key=lambda e: (e[0], e[1]))
        pos = a
        for (x, y, repl, tag) in eds:
            if x < pos:
                raise LostAnchor("edit order problem in %s" % self.path)
            if x > pos:
                pieces.append((self.text[pos:x], ('src', self.path, pos)))
            if repl:
                pieces.append((repl, ('ovl', tag)))
            pos = y
        if pos < b:
            pieces.append((self.text[pos:b], ('src', self.path, pos)))
        return pieces


D2_ATTRS = re.compile(
    r'#\[\s*(pyclass|pymethods|new|pyo3\s*\(|pyfunction|inline|allow\s*\(|enum_dispatch|derive\s*\(\s*Debug\s*\)\s*\])')

EXTERN_CRATES = ["nom", "pyo3", "digest", "md5", "sha1", "cipher", "cbc", "cfb_mode", "des", "aes",
                 "rand", "socket2", "enum_dispatch"]


def line_of(text, pos):
    return text.count('\n', 0, pos) + 1


class Unit:
    def __init__(self, unit_path):
        self.spec = self.load_spec(unit_path)
        self.name = self.spec['name']
        self.unit_path = unit_path
        self.report = dict(unit=self.name, files=[], rules=[], functions=[], assumptions=[],
                           obligations=[])
        self.out_lines = []   # (text, origin, fn)
        self.obl = {}         # tag -> dict(owner,label,fn,kind)
        # inventory of the tree the contracts were written for (tools/mkinventory.py): item keys, function names and the function
        # each in-body rewrite lives in. It tells a NEW item / function (no contract can exist for it) from a known one, and lets a
        # lost in-body rewrite cost one function instead of the unit.
        self.inv = None
        ip = os.path.join(CONTRACTS, 'inventory.json')
        if os.path.exists(ip) and not os.environ.get('VERIF_NO_INVENTORY'):
            with open(ip) as fh:
                self.inv = json.load(fh).get('units', {}).get(self.name)
        self.lost_rw = {}     # qname -> [rewrite text] : in-body rewrites that no longer match
        self.item_extra_done = set()
        self.inventory_out = dict(files={}, rewrites={})

    def load_spec(self, unit_path):
        with open(unit_path, 'rb') as f:
            spec = tomllib.load(f)
        # merge included units (files, fns, shims, specs, item_extra); the including unit wins on duplicates
        for inc in spec.get('include', []):
            sub = self.load_spec(os.path.join(os.path.dirname(unit_path), inc + '.toml'))
            for key in ('shims', 'specs'):
                merged = list(sub.get(key, []))
                for x in spec.get(key, []):
                    if x not in merged:
                        merged.append(x)
                spec[key] = merged
            have_files = {f['path']: f for f in spec.get('file', [])}
            for f in sub.get('file', []):
                if spec.get('include_assumed') and f.get('extra') and not f.get('_extra_assumed'):
                    # exec fns written out in the included unit's `extra` text (e.g. the enum_dispatch expansion) were
                    # verified there; here their bodies are skipped like every other included function
                    f = dict(f)
                    f['extra'] = re.sub(r'(?m)^(\s*)((?:pub )?fn )', r'\1#[verifier::external_body] \2', f['extra'])
                    f['_extra_assumed'] = True
                if f['path'] in have_files:
                    # same source file in both units: start from the included entry, the including unit overrides
                    tgt = have_files[f['path']]
                    merged = dict(f)
                    for k, v in tgt.items():
                        if k in ('extra', 'pre') and f.get(k):
                            merged[k] = v if f[k].strip() == v.strip() else f[k] + '\n' + v
                        elif k == 'rewrite' and f.get(k):
                            merged[k] = list(f[k]) + [x for x in v if x not in f[k]]
                        elif k == 'keep' and f.get(k):
                            merged[k] = list(dict.fromkeys(list(f[k]) + list(v)))
                        else:
                            merged[k] = v
                    if 'keep' not in tgt:
                        merged.pop('keep', None)   # the including unit keeps every item of the file
                    tgt.clear()
                    tgt.update(merged)
                else:
                    spec.setdefault('file', []).insert(0, f)
            have_fns = set((f['file'], f.get('item', ''), f['name']) for f in spec.get('fn', []))
            for fo in sub.get('fn', []):
                if (fo['file'], fo.get('item', ''), fo['name']) not in have_fns:
                    if spec.get('include_assumed') and fo.get('mode', 'verify') == 'verify' and (fo.get('ensures') or fo.get('requires') or spec.get('t2') or sub.get('t2')):
                        # composition by contract: bodies of the included unit's functions are proved THERE; here only
                        # their contracts are visible (assumed), like any other callee
                        fo = dict(fo)
                        fo['mode'] = 'external_body'
                        fo['why'] = 'proved in unit %s; assumed in this unit (composition by contract)' % sub.get('name', inc)
                        fo.pop('loop', None)
                        fo.pop('hint', None)
                    spec.setdefault('fn', []).append(fo)
            for ie in sub.get('item_extra', []):
                spec.setdefault('item_extra', []).append(ie)
            if 't2' in sub and 't2' not in spec:
                spec['t2'] = sub['t2']
        return spec

    # -- helpers ---------------------------------------------------------------------------
    def other_files_text(self, path):
        """Text of the other source files of this unit (a new helper may be used from a sibling module: `use super::helper`)."""
        if not hasattr(self, '_oft'):
            self._oft = {}
        if path not in self._oft:
            parts = []
            for f in self.spec.get('file', []):
                if f['path'] != path:
                    try:
                        with open(os.path.join(REPO, f['path'])) as fh:
                            parts.append(re.sub(r'(?s)#\[cfg\(test\)\]\s*mod \w+ \{.*', '', fh.read()))
                    except OSError:
                        pass
            self._oft[path] = '\n'.join(parts)
        return self._oft[path]

    def rule(self, rule, path, line, detail):
        self.report['rules'].append(dict(rule=rule, file=path, line=line, detail=detail))

    def emit(self, text, origin, fn=None):
        for ln in text.split('\n'):
            self.out_lines.append((ln, origin, fn))

    def emit_pieces(self, pieces, src_text, fn=None):
        """Flatten pieces into output lines with per-line origin."""
        cur = ''
        cur_origin = None
        for (text, origin) in pieces:
            if origin[0] == 'src':
                _, path, pos = origin
                line = line_of(src_text, pos)
            k = 0
            for ch_i, seg in enumerate(text.split('\n')):
                if ch_i > 0:
                    self.out_lines.append((cur, cur_origin or ('blank',), fn))
                    cur = ''
                    cur_origin = None
                    if origin[0] == 'src':
                        line += 1
                if seg.strip() and cur_origin is None:
                    cur_origin = ('src', origin[1], line) if origin[0] == 'src' else origin
                elif seg.strip() and origin[0] == 'src' and cur_origin[0] == 'ovl' and False:
                    pass
                cur += seg
        if cur.strip():
            self.out_lines.append((cur, cur_origin or ('blank',), fn))

    # -- main ------------------------------------------------------------------------------
    def build(self):
        spec = self.spec
        files = spec.get('file', [])
        fns = spec.get('fn', [])
        included_modules = set(f['module'] for f in files)
        # module tree
        tree = {}
        for f in files:
            node = tree
            for part in f['module'].split('::') if f['module'] else []:
                node = node.setdefault('mods', {}).setdefault(part, {})
            node.setdefault('files', []).append(f)
        self.emit("// GENERATED by tools/vx.py from %s — do not edit" % os.path.relpath(self.unit_path, HERE), ('gen',))
        self.emit("#![allow(mismatched_lifetime_syntaxes, unused_imports, dead_code, unused_variables, unused_mut, unused_assignments, non_snake_case, unused_parens, unused_braces, unreachable_patterns, unreachable_code)]", ('gen',))
        self.emit("#![feature(allocator_api)]", ('gen',))
        self.emit("use vstd::prelude::*;", ('gen',))
        self.emit("verus! {", ('gen',))
        self.emit("global size_of usize == 8;", ('gen',))
        for sh in spec.get('shims', []):
            p = os.path.join(CONTRACTS, 'shims', sh)
            self.emit_file_raw(p, 'shim')
        for sp in spec.get('specs', []):
            p = os.path.join(CONTRACTS, 'spec', sp)
            self.emit_file_raw(p, 'spec')
        self.fn_overlays = fns
        self.used_overlays = set()
        self.used_item_extra = set()
        self.emit_tree(tree, included_modules, [])
        for ix, ie in enumerate(spec.get('item_extra', [])):
            if ix not in self.used_item_extra:
                raise LostAnchor("item_extra for %s in %s matched nothing" % (ie['item'], ie['file']))
        for idx, fo in enumerate(fns):
            if idx not in self.used_overlays:
                raise LostAnchor("overlay for fn %s in %s (%s) matched nothing" %
                                 (fo['name'], fo['file'], fo.get('item', '')))
        if spec.get('tail'):
            self.emit(spec['tail'], ('ovl', 'tail'))
        self.emit("} // verus!", ('gen',))
        self.emit("fn main() {}", ('gen',))
        return self

    def emit_file_raw(self, p, kind):
        with open(p) as f:
            t = f.read()
        rel = os.path.relpath(p, HERE)
        for i, ln in enumerate(t.split('\n')):
            self.out_lines.append((ln, (kind, rel, i + 1), None))
        # assumption scan
        for m in re.finditer(r'(external_body|assume_specification|\bassume\s*\(|\badmit\s*\(|uninterp|external_type_specification|#\[verifier::truncate\]|#\[verifier::external)', t):
            self.report['assumptions'].append(dict(where="%s:%d" % (rel, line_of(t, m.start())), what=m.group(1),
                                                   text=t[m.start():t.find('\n', m.start())][:160]))

    def emit_tree(self, node, included, path):
        for f in node.get('files', []):
            self.emit_source_file(f, included)
        for name, sub in node.get('mods', {}).items():
            self.emit("pub mod %s {" % name, ('gen',))
            self.emit_tree(sub, included, path + [name])
            self.emit("} // mod %s" % name, ('gen',))

    def emit_source_file(self, f, included):
        path = f['path']
        full = os.path.join(REPO, path)
        if not os.path.exists(full):
            raise LostAnchor("source file %s is gone" % path)
        with open(full) as fh:
            text = fh.read()
        ed = Edits(text, path)
        mask = code_mask(text)
        items = split_items(text, 0, len(text))
        keep_re = [re.compile(k) for k in f.get('keep', [])]
        drop_re = [re.compile(k) for k in f.get('drop', [])]
        kept = []
        dropped = []
        matched_keep = set()
        matched_drop = set()
        for it in items:
            key = it['key']
            attrs = text[it['a']:it['hdr_a']]
            if re.search(r'#\[cfg\(test\)\]', attrs):
                dropped.append(key)
                continue
            if re.match(r'^(pub(\([a-z]+\))? )?mod [A-Za-z_#0-9]+$', key):
                # `mod x;` — modules are inlined
                self.rule('D3', path, line_of(text, it['hdr_a']), 'removed `%s;` (inlined)' % key)
                continue
            m = re.match(r'^(pub(\([a-z]+\))? )?use ([A-Za-z_#0-9]+)::', key)
            if m and re.match(r'^(pub(\([a-z]+\))? )use ', key) and not key.startswith('pub use crate') and not key.startswith('pub use super'):
                # re-export `pub use x::Y;` kept iff module x is part of this unit
                modname = m.group(3).replace('r#', '')
                mymod = f['module']
                target = (mymod + '::' if mymod else '') + modname
                if target not in included and modname not in ('crate', 'super', 'self'):
                    dropped.append(key)
                    continue
                if modname not in ('crate', 'super', 'self', 'std', 'core', 'alloc', 'vstd'):
                    # inside verus!{} a module named `bool`/`int` is ambiguous with the builtin type: qualify with self::
                    k = it['hdr_a'] + m.start(3)
                    ed.add(k, k, 'self::', 'D3')
                    self.rule('D3', path, line_of(text, k), '`pub use %s::` -> `pub use self::%s::`' % (m.group(3), m.group(3)))
            ok = True
            # keep / drop patterns were written against the item as it was declared then; tightening or widening its visibility does
            # not make it another item: a pattern is also tried against the key with `pub` / `pub(crate)` removed or added
            bare = re.sub(r'^pub(\([a-z]+\))? ', '', key)
            variants = [key, bare, 'pub ' + bare, 'pub(crate) ' + bare]
            if keep_re:
                ok = False
                for i, r in enumerate(keep_re):
                    if any(r.search(v) for v in variants):
                        ok = True
                        matched_keep.add(i)
            for i, r in enumerate(drop_re):
                if any(r.search(v) for v in variants):
                    ok = False
                    matched_drop.add(i)
            if not ok:
                dropped.append(key)
                continue
            kept.append(it)
        for i, r in enumerate(keep_re):
            if i not in matched_keep:
                raise LostAnchor("keep pattern %r matched no item in %s" % (r.pattern, path))
        for i, r in enumerate(drop_re):
            if i not in matched_drop:
                raise LostAnchor("drop pattern %r matched no item in %s" % (r.pattern, path))
        # ---- K1: items that did not exist when the contracts were written. No keep / drop pattern was written with them in mind:
        #      a new NAMED item (fn / const / static / struct / enum / type) is extracted iff extracted code refers to its name.
        inv_file = (self.inv or {}).get('files', {}).get(path)
        if inv_file is not None:
            known = set(inv_file['items'])

            def item_name(key):
                m = re.match(r'^(?:pub(?:\([a-z]+\))? )?(?:const |static (?:mut )?|(?:unsafe )?fn |struct |enum |type )([A-Za-z_][A-Za-z0-9_]*)', key)
                return m.group(1) if m else None
            new_named = [it for it in items if it['key'] not in known and item_name(it['key'])
                         and not re.search(r'#\[cfg\(test\)\]', text[it['a']:it['hdr_a']])]
            if new_named:
                kept_ids = set(id(k) for k in kept)
                base = [k for k in kept if k not in new_named]
                chosen = []
                changed = True
                while changed:
                    changed = False
                    for it in new_named:
                        if it in chosen:
                            continue
                        nm = item_name(it['key'])
                        if any(re.search(r'\b%s\b' % re.escape(nm), text[k['hdr_a']:k['b']]) for k in base + chosen) \
                                or re.search(r'\b%s\b' % re.escape(nm), self.other_files_text(path)):
                            chosen.append(it)
                            changed = True
                for it in new_named:
                    nm = item_name(it['key'])
                    if it in chosen and id(it) not in kept_ids:
                        kept.append(it)
                        if it['key'] in dropped:
                            dropped.remove(it['key'])
                        self.rule('K1', path, line_of(text, it['hdr_a']), 'new item `%s` extracted: extracted code refers to it' % nm)
                    elif it not in chosen and id(it) in kept_ids:
                        kept.remove(it)
                        dropped.append(it['key'])
                        self.rule('K1', path, line_of(text, it['hdr_a']), 'new item `%s` not extracted: no extracted code refers to it' % nm)
                kept.sort(key=lambda k: k['a'])
        self.inventory_out['files'][path] = dict(items=[it['key'] for it in items], fns=[])
        self.report['files'].append(dict(path=path, kept=[k['key'] for k in kept], dropped=dropped))

        # ---- global regex rules on kept ranges
        def in_kept(a):
            return any(k['a'] <= a < k['b'] for k in kept)

        def code_at(a):
            return mask[a] == 1

        for m in D2_ATTRS.finditer(text):
            if not in_kept(m.start()) or not code_at(m.start()):
                continue
            k = text.index('[', m.start())
            e = match_brace(text, k)
            # swallow trailing whitespace/newline
            e2 = e
            while e2 < len(text) and text[e2] in ' \t':
                e2 += 1
            if e2 < len(text) and text[e2] == '\n':
                e2 += 1
            ed.add(m.start(), e2, '', 'D2')
            self.rule('D2', path, line_of(text, m.start()), 'removed attribute ' + re.sub(r'\s+', ' ', text[m.start():e]))
        for m in re.finditer(r'\buse\s+(' + '|'.join(EXTERN_CRATES) + r')::', text):
            if re.search(r'(?m)^\s*(pub(\([a-z]+\))?\s+)?mod\s+%s\s*;' % m.group(1), text):
                continue   # a local module of the same name shadows the extern crate in this file
            if in_kept(m.start()) and code_at(m.start()):
                ed.add(m.start(1), m.end(1), 'crate::' + m.group(1), 'D3')
                self.rule('D3', path, line_of(text, m.start()), '`use %s::` -> `use crate::%s::`' % (m.group(1), m.group(1)))
        for m in re.finditer(r'\.map_err\(Err::Failure\)', text):
            if in_kept(m.start()) and code_at(m.start()):
                ed.add(m.start(), m.end(), '.map_err(|e| Err::Failure(e))', 'N1')
                self.rule('N1', path, line_of(text, m.start()), 'eta-expanded map_err(Err::Failure)')
        for m in re.finditer(r'\|_\|', text):
            if in_kept(m.start()) and code_at(m.start()):
                ed.add(m.start(), m.end(), '|_e|', 'N5')
                self.rule('N5', path, line_of(text, m.start()), 'closure parameter `_` named `_e` (Verus needs a variable pattern)')
        for m in re.finditer(r'\bformat!\s*\(', text):
            if in_kept(m.start()) and code_at(m.start()):
                e = match_brace(text, m.end() - 1)
                ed.add(m.start(), e, 'crate::shim::fmt_opaque()', 'N2')
                self.rule('N2', path, line_of(text, m.start()), 'format!(..) -> opaque String')
        for m in re.finditer(r'\bdebug_assert(?:_eq|_ne)?!\s*\(', text):
            if in_kept(m.start()) and code_at(m.start()):
                e = match_brace(text, m.end() - 1)
                e2 = e
                while e2 < len(text) and text[e2] in ' \t':
                    e2 += 1
                if e2 < len(text) and text[e2] == ';':
                    e2 += 1
                ed.add(m.start(), e2, '', 'N6')
                self.rule('N6', path, line_of(text, m.start()), 'debug_assert!(..) removed (compiled out of the release build that ships; a debug-build panic from it is not covered)')
                self.report['assumptions'].append(dict(where="%s:%d" % (path, line_of(text, m.start())), what='debug_assert removed',
                                                       text='debug assertions are not checked: release-build semantics'))
        for m in re.finditer(r'\b(?:const|static)\s+[A-Za-z_][A-Za-z0-9_]*\s*:\s*&(?!\s*\')', text):
            if in_kept(m.start()) and code_at(m.start()):
                ed.add(m.end(), m.end(), "'static ", 'N7')
                self.rule('N7', path, line_of(text, m.start()), "elided lifetime of a const / static reference spelled out as 'static (the verus! macro does not elide it)")
        for m in re.finditer(r'\bpub\(crate\)', text):
            if in_kept(m.start()) and code_at(m.start()):
                ed.add(m.start(), m.end(), 'pub', 'N3')
                self.rule('N3', path, line_of(text, m.start()), 'pub(crate) -> pub')
        for rw in f.get('rewrite', []):
            cnt = 0
            start = 0
            while True:
                k = text.find(rw['from'], start)
                if k < 0:
                    break
                start = k + len(rw['from'])
                if in_kept(k) and code_at(k):
                    ed.add(k, k + len(rw['from']), rw['to'], 'RW')
                    self.rule('RW', path, line_of(text, k), '`%s` -> `%s` (%s)' % (rw['from'], rw['to'], rw.get('why', '')))
                    self.report['rules'][-1]['rw_from'] = rw['from']
                    cnt += 1
            if cnt == 0:
                # an in-body rewrite whose text is gone: the function it lived in (known from the inventory) is undecided - its
                # failures can no longer be trusted - instead of the whole unit. A file-level rewrite still loses the unit.
                homes = ((self.inv or {}).get('rewrites', {}).get(path, {}) or {}).get(rw['from'])
                if homes and all(homes):
                    for q in homes:
                        self.lost_rw.setdefault(q, []).append(rw['from'])
                    continue
                raise LostAnchor("rewrite %r matched nothing in %s" % (rw['from'], path))

        # ---- N3b: every field of an extracted struct is made `pub` (visibility only; open spec fns must name the fields)
        if f.get('pub_fields'):
            for it in kept:
                if not re.match(r'^(pub(\([a-z]+\))? )?struct\b', it['key']):
                    continue
                if it['body_open'] is not None:
                    body_a, body_b = it['body_open'] + 1, it['b'] - 1
                    for fm in re.finditer(r'(?m)^(\s*)([A-Za-z_][A-Za-z0-9_]*)\s*:', text[body_a:body_b]):
                        pos = body_a + fm.start(2)
                        if mask[pos] and not text[body_a + fm.start():pos].strip():
                            ed.add(pos, pos, 'pub ', 'N3b')
                            self.rule('N3b', path, line_of(text, pos), 'field `%s` made pub' % fm.group(2))
                else:
                    # tuple struct: `struct X(T, U);`
                    k = text.find('(', it['hdr_a'], it['b'])
                    if k >= 0:
                        e = match_brace(text, k)
                        depth = 0
                        start = k + 1
                        i = k + 1
                        while i < e:
                            ch = text[i]
                            if ch in '(<[':
                                depth += 1
                            elif ch in ')>]':
                                depth -= 1
                            if (ch == ',' and depth == 0) or i == e - 1:
                                seg = text[start:i]
                                if seg.strip() and not seg.strip().startswith('pub'):
                                    p2 = start + (len(seg) - len(seg.lstrip()))
                                    try:
                                        ed.add(p2, p2, 'pub ', 'N3b')
                                        self.rule('N3b', path, line_of(text, p2), 'tuple field made pub')
                                    except LostAnchor:
                                        pass   # the struct line is rewritten by a unit-specific RW (opaque struct)
                                start = i + 1
                            i += 1
        # ---- T1: `impl<'a> TryFrom<&'a [u8]> for X<'a>` -> inherent `impl<'a> X<'a> { pub fn try_from }` (body verbatim)
        if f.get('tryfrom_inherent'):
            for it in kept:
                m0 = re.match(r"^impl(<[^>]*>)? TryFrom<(.+)> for (\w+)(<.*>)?$", it['key'])
                if not m0 or it['body_open'] is None:
                    continue
                class _M:
                    pass
                m = _M()
                tname = m0.group(3)
                m.group = lambda k, _t=tname: _t
                hdr_end = it['body_open']
                foreign = tname in ('String',)
                if foreign:
                    # the target is a std type: no inherent impl possible; the function is emitted on a local unit struct
                    # T1_<Target> and `Self` in its signature is spelled out (body verbatim)
                    ed.add(it['hdr_a'], hdr_end, "pub struct T1_%s; impl%s T1_%s " % (tname, m0.group(1) or '', tname), 'T1')
                else:
                    ed.add(it['hdr_a'], hdr_end, "impl%s %s%s " % (m0.group(1) or '', tname, m0.group(4) or ''), 'T1')
                body = text[it['body_open']:it['b']]
                if foreign:
                    for sm in re.finditer(r'Result<Self,', body):
                        ed.add(it['body_open'] + sm.start(), it['body_open'] + sm.end(), 'Result<%s,' % tname, 'T1')
                tm = re.search(r'type Error = SnmpError;\s*\n', body)
                if not tm:
                    raise LostAnchor("T1: no `type Error = SnmpError;` in %s of %s" % (it['key'], path))
                ed.add(it['body_open'] + tm.start(), it['body_open'] + tm.end(), '', 'T1')
                fm = re.search(r'\bfn try_from\(', body)
                ed.add(it['body_open'] + fm.start(), it['body_open'] + fm.start(), 'pub ', 'T1')
                for em in re.finditer(r'Self::Error', body):
                    ed.add(it['body_open'] + em.start(), it['body_open'] + em.end(), 'SnmpError', 'T1')
                self.rule('T1', path, line_of(text, it['hdr_a']), '`%s` emitted as inherent `impl<\'a> %s<\'a> { pub fn try_from }` (Verus cannot put a contract on a foreign-trait impl)' % (it['key'], m.group(1)))
                it['key_t1'] = "impl %s" % m.group(1)
        # ---- T1b: `impl From<&X> for Vec<u8> { fn from }` -> `pub struct T1_Vec; impl T1_Vec { pub fn from }` (body verbatim) for the
        #           impls listed in the file's `from_inherent` (Verus cannot put a contract on a foreign-trait impl, and Vec has no
        #           extensional equality for the FromSpec route); call sites are rewritten by listed RW rules
        for pat in f.get('from_inherent', []):
            for it in kept:
                if not re.search(pat, it['key']) or it['body_open'] is None:
                    continue
                m0 = re.match(r"^impl(<[^>]*>)? From<(.+)> for (\w+)(<.*>)?$", it['key'])
                if not m0:
                    raise LostAnchor("T1b: %s is not a From impl" % it['key'])
                tname, targs = m0.group(3), (m0.group(4) or '')
                ed.add(it['hdr_a'], it['body_open'], "pub struct T1_%s; impl%s T1_%s " % (tname, m0.group(1) or '', tname), 'T1')
                body = text[it['body_open']:it['b']]
                fm = re.search(r'\bfn from\(', body)
                if not fm:
                    raise LostAnchor("T1b: no fn from in %s" % it['key'])
                ed.add(it['body_open'] + fm.start(), it['body_open'] + fm.start(), 'pub ', 'T1')
                for sm in re.finditer(r'->\s*(Self)\b', body):
                    ed.add(it['body_open'] + sm.start(1), it['body_open'] + sm.end(1), '%s%s' % (tname, targs), 'T1')
                self.rule('T1', path, line_of(text, it['hdr_a']), '`%s` emitted as `impl T1_%s { pub fn from }` (body verbatim)' % (it['key'], tname))
                it['key_t1'] = "impl T1_%s" % tname
        # ---- T2: `impl Trait for X { fn f }` -> inherent `impl X { pub fn f }` for the trait named in the unit's [t2] table
        t2 = self.spec.get('t2')
        if t2:
            for it in kept:
                key = it['key']
                if it['body_open'] is None or not re.search(t2['item'], key):
                    continue
                m = re.match(r'^impl(<[^>]*>)?\s+.*\bfor\s+(.+)$', key)
                if not m:
                    continue
                ed.add(it['hdr_a'], it['body_open'], "impl%s %s " % (m.group(1) or '', m.group(2)), 'T2')
                body = text[it['body_open']:it['b']]
                found = 0
                for fname in [t2['fn']] + list(t2.get('also', [])):
                    fm = re.search(r'\bfn %s\b' % re.escape(fname), body)
                    if not fm:
                        if t2.get('any'):
                            continue    # several traits in one table: each impl has its own method
                        raise LostAnchor("T2: no fn %s in %s of %s" % (fname, key, path))
                    found += 1
                    ed.add(it['body_open'] + fm.start(), it['body_open'] + fm.start(), 'pub ', 'T2')
                if not found:
                    raise LostAnchor("T2: none of the listed fns in %s of %s" % (key, path))
                self.rule('T2', path, line_of(text, it['hdr_a']), '`%s` emitted as inherent `impl%s %s { pub fn %s }` (body verbatim; Verus loses its iterator axioms in functions reached from trait impls)' % (key, m.group(1) or '', m.group(2), t2['fn']))
        # ---- per-function overlays
        fn_spans = []  # (a, b, qualified name)
        for it in kept:
            key = it['key']
            if it['body_open'] is not None and re.match(r'^(pub(\([a-z]+\))? )?(unsafe )?(impl|trait)\b', key):
                for ix, ie in enumerate(self.spec.get('item_extra', [])):
                    if ie['file'] == path and re.search(ie['item'], key):
                        if (path, ix) in self.item_extra_done:
                            continue   # ghost items go into ONE block: a second impl block of the same type (added later) gets none
                        self.item_extra_done.add((path, ix))
                        ed.edits.append((it['body_open'] + 1, it['body_open'] + 1, '\n' + ie['text'].rstrip() + '\n',
                                         'item_extra:%s:%s' % (path, ie['item'])))
                        self.used_item_extra.add(ix)
                        for m in re.finditer(r'(external_body|assume_specification|\bassume\s*\(|\badmit\s*\(|uninterp|#\[verifier::truncate\])', ie['text']):
                            self.report['assumptions'].append(dict(where="%s (%s)" % (path, ie['item']), what=m.group(1), text=ie.get('why', '')))
                inner = split_items(text, it['body_open'] + 1, it['b'] - 1)
                for sub in inner:
                    nm = fn_name_of(sub['key'])
                    if nm:
                        self.apply_fn_overlay(ed, text, mask, path, key, nm, sub, fn_spans, f)
                # fn_drop
            elif fn_name_of(key) and it['body_open'] is not None:
                self.apply_fn_overlay(ed, text, mask, path, '', fn_name_of(key), it, fn_spans, f)
        # ---- new functions (not in the inventory): no contract can have been written for them. Their own failures, and the failures
        #      of the functions of this file that call them (which see no postcondition), are undecided.
        inv_file = (self.inv or {}).get('files', {}).get(path)
        if inv_file is not None:
            known_fns = set(inv_file['fns'])
            for (a, b, q) in fn_spans:
                if q in known_fns:
                    continue
                nm = q.rsplit('::', 1)[-1].strip()
                self.report.setdefault('lost_anchors', []).append(dict(fn=q, kind='new-function', anchor=nm))
                self.report.setdefault('new_functions', []).append(q)
                for (a2, b2, q2) in fn_spans:
                    if q2 != q and re.search(r'(?<![A-Za-z0-9_])%s\s*\(' % re.escape(nm), text[a2:b2]):
                        self.report.setdefault('lost_anchors', []).append(dict(fn=q2, kind='calls-new-function', anchor=nm))
        self.inventory_out['files'].setdefault(path, dict(items=[], fns=[]))['fns'] = [q for (_, _, q) in fn_spans]
        for q, lst in self.lost_rw.items():
            if q.startswith(path + ' :: '):
                for t in lst:
                    if not any(la['fn'] == q and la['kind'] == 'rewrite' and la['anchor'] == t for la in self.report.get('lost_anchors', [])):
                        self.report.setdefault('lost_anchors', []).append(dict(fn=q, kind='rewrite', anchor=t))
        # fn_drop handling: per-file list of "item-regex::fn"
        # ---- emit
        self.emit("// ---- %s" % path, ('gen',))
        self.emit("use vstd::prelude::*;", ('gen',))
        groups = []
        if 'std.rs' in self.spec.get('shims', []):
            groups.append("crate::stdspec::group_std_axioms")
        if 'buffer.rs' in self.spec.get('shims', []):
            groups.append("crate::buf::group_buffer_axioms")
        if 'cipher.rs' in self.spec.get('shims', []):
            groups.append("crate::cipher::group_cipher_axioms")
        if 'pyo3.rs' in self.spec.get('shims', []):
            groups.append("crate::pyo3::group_pyo3_axioms")
        if groups:
            self.emit("broadcast use {%s};" % ', '.join(groups), ('gen',))
        if f.get('pre'):
            self.emit(f['pre'], ('ovl', 'pre:' + path))
        for it in kept:
            pieces = ed.render(it['a'], it['b'])
            start_idx = len(self.out_lines)
            self.emit_pieces(pieces, text)
            # annotate function names per line
            for idx in range(start_idx, len(self.out_lines)):
                ln, origin, _ = self.out_lines[idx]
                fnname = None
                if origin[0] == 'src':
                    for (a, b, q) in fn_spans:
                        la, lb = line_of(text, a), line_of(text, b)
                        if la <= origin[2] <= lb:
                            fnname = q
                elif origin[0] == 'ovl' and isinstance(origin[1], str) and origin[1] in self.obl:
                    fnname = self.obl[origin[1]]['fn']
                self.out_lines[idx] = (ln, origin, fnname)
        if f.get('extra'):
            self.emit(f['extra'], ('ovl', 'extra:' + path))
            for m in re.finditer(r'(external_body|assume_specification|\bassume\s*\(|\badmit\s*\(|uninterp|#\[verifier::truncate\])', f['extra']):
                self.report['assumptions'].append(dict(where="unit %s extra for %s" % (self.name, path), what=m.group(1),
                                                       text=f['extra'][m.start():f['extra'].find('\n', m.start())][:160]))

    def apply_fn_overlay(self, ed, text, mask, path, item_key, name, sub, fn_spans, f):
        qual = "%s::%s" % (re.sub(r'\s+', ' ', item_key), name) if item_key else name
        qname = "%s :: %s" % (path, qual)
        fn_spans.append((sub['a'], sub['b'], qname))
        # keep-list for an item: every other fn of that item is dropped
        for d in f.get('fn_keep', []):
            ik, fnn = d.rsplit('::', 1)
            if re.search(ik, item_key):
                allowed = [x.rsplit('::', 1)[1] for x in f.get('fn_keep', []) if re.search(x.rsplit('::', 1)[0], item_key)]
                inv_file = (self.inv or {}).get('files', {}).get(path)
                if name not in allowed and inv_file is not None and qname not in set(inv_file['fns']) and \
                        re.search(r'(?<![A-Za-z0-9_])%s\s*\(' % re.escape(name), text[:sub['a']] + text[sub['b']:]):
                    # K1 for methods: a method that did not exist when the list was written and that other code of the file calls
                    self.rule('K1', path, line_of(text, sub['hdr_a']), 'new method `%s` extracted: code of the file calls it' % qual)
                    break
                if name not in allowed:
                    ed.drop_range(sub['a'], sub['b'], 'D1')
                    self.rule('D1', path, line_of(text, sub['hdr_a']), 'dropped fn %s (not in fn_keep)' % qual)
                    return
                break
        # drop?
        for d in f.get('fn_drop', []):
            ik, fnn = d.rsplit('::', 1)
            if fnn == name and re.search(ik, item_key):
                ed.drop_range(sub['a'], sub['b'], 'D1')
                self.rule('D1', path, line_of(text, sub['hdr_a']), 'dropped fn %s' % qual)
                return
        # body skipped (contract kept, body undecided): Verus refused a construct in it on an earlier attempt, or a rewrite that made it
        # acceptable to Verus no longer finds its text (the unrewritten construct can crash the verifier instead of being refused)
        forced = qname in getattr(self, 'force_external', set()) or qname in self.lost_rw
        t2 = self.spec.get('t2')
        ov = None
        for idx, fo in enumerate(self.fn_overlays):
            if fo['file'] == path and fo['name'] == name and re.search(fo.get('item', ''), item_key):
                if ov is not None:
                    raise LostAnchor("two overlays match %s" % qname)
                ov = fo
                self.used_overlays.add(idx)
        if t2 and name == t2['fn'] and re.search(t2['item'], item_key) and sub['body_open'] is not None:
            # T2 applies to every impl of the trait: give the inherent twin the unit's default contract
            ov = dict(ov) if ov is not None else dict(file=path, name=name)
            ov.setdefault('requires', list(t2.get('requires', [])))
            own = list(ov.get('ensures', []))
            labels = set(e['label'] for e in own)
            ov['ensures'] = [dict(e) for e in t2.get('ensures', []) if e['label'] not in labels] + own
            ov.setdefault('safety_owner', t2.get('safety_owner'))
        if ov is None and forced:
            ov = dict(file=path, name=name, mode='external_body')
        if ov is None:
            self.report['functions'].append(dict(fn=qname, contract=False, mode='verified-no-contract'))
            self.obl['safety:' + qname] = dict(owner=f.get('safety_owner'), label='safety', fn=qname, kind='safety')
            return
        body_open = sub['body_open']
        if body_open is None:
            # trait method declaration without body: contract goes before ';'
            body_open = sub['b'] - 1
        sig = text[sub['hdr_a']:body_open]
        # locate `->` at depth 0
        depth = 0
        arrow = None
        i = sub['hdr_a']
        while i < body_open:
            if mask[i]:
                ch = text[i]
                if ch in '([':
                    depth += 1
                elif ch in ')]':
                    depth -= 1
                elif ch == '-' and text[i + 1] == '>' and depth == 0:
                    arrow = i
                    break
            i += 1
        where = None
        m = re.search(r'\bwhere\b', sig)
        if m:
            where = sub['hdr_a'] + m.start()
        sig_end = where if where is not None else body_open
        res = ov.get('result', 'r')
        split = ov.get('split_body')
        if split:
            # T2: the body of a trait-impl method moves verbatim into an inherent method `split`; the trait method
            # delegates to it (Verus mis-handles `for .. in iter().rev()` inside trait impls)
            m = re.match(r'^impl(<[^>]*>)?\s+.*\bfor\s+(.+)$', re.sub(r'\s+', ' ', item_key))
            if not m or sub['body_open'] is None:
                raise LostAnchor("split_body needs a trait impl method with a body: %s" % qname)
            paren = text.index('(', sub['hdr_a'] + sig.index('fn ' + name))
            paren_end = match_brace(text, paren)
            params = text[paren + 1:paren_end - 1]
            args = []
            depth = 0
            cur = ''
            for ch in params:
                if ch in '([<':
                    depth += 1
                elif ch in ')]>':
                    depth -= 1
                if ch == ',' and depth == 0:
                    args.append(cur)
                    cur = ''
                else:
                    cur += ch
            if cur.strip():
                args.append(cur)
            names = [a.split(':')[0].strip() for a in args if 'self' not in a.split(':')[0]]
            if arrow is not None:
                newsig = "    pub fn %s(%s) -> (%s: %s)" % (split, params, res, text[arrow + 2:sig_end].strip())
            else:
                newsig = "    pub fn %s(%s)" % (split, params)
            self._split_prefix = "{ self.%s(%s) }\n}\nimpl%s %s {\n%s" % (split, ', '.join(names), m.group(1) or '', m.group(2), newsig)
            self.rule('T2', path, line_of(text, sub['hdr_a']), 'body of `%s` emitted as inherent method `%s`, the trait method delegates to it' % (qual, split))
        if not split and arrow is not None and (where is None or arrow < where):
            ty_a = arrow + 2
            ty_b = sig_end
            ty = text[ty_a:ty_b]
            tys = ty.strip()
            lead = len(ty) - len(ty.lstrip())
            trail = len(ty) - len(ty.rstrip())
            ed.add(ty_a + lead, ty_a + lead, '(%s: ' % res, 'N4:ret')
            ed.add(ty_b - trail, ty_b - trail, ')', 'N4:ret')
        clauses = []
        mode = ov.get('mode', 'verify')
        if forced and mode == 'verify':
            # the body uses a construct Verus cannot take: keep the contract (callers are still checked against it),
            # skip the body; the runner treats the function as undecided
            mode = 'external_body'
            self.report.setdefault('lost_anchors', []).append(dict(fn=qname, kind='unsupported-construct', anchor='body'))
        tagbase = "%s#" % qname
        contract_text = ''
        reqs = ov.get('requires', [])
        if reqs:
            contract_text += '\n    requires\n'
            for r in reqs:
                rtext = r if isinstance(r, str) else r['text']
                contract_text += '        %s,\n' % rtext.strip().rstrip(',')
        ens = ov.get('ensures', [])
        pieces = []
        if contract_text:
            pieces.append((contract_text, tagbase + 'requires'))
        if ens:
            pieces.append(('\n    ensures\n' if not contract_text else '    ensures\n', tagbase + 'ensures-kw'))
            for e in ens:
                tag = tagbase + 'post:' + e['label']
                self.obl[tag] = dict(owner=e['owner'], label=e['label'], fn=qname, kind='post',
                                     assumed=(mode != 'verify'))
                pieces.append(('        %s,\n' % e['text'].strip().rstrip(','), tag))
        if ov.get('decreases'):
            pieces.append(('    decreases %s,\n' % ov['decreases'], tagbase + 'decreases'))
        if ov.get('opens_invariants'):
            pass
        # attribute for external_body (a bodiless trait method declaration has nothing to skip)
        if mode == 'external_body' and sub['body_open'] is None:
            mode = 'verify'
        if mode == 'external_body' and qname in getattr(self, 'drop_body', set()):
            # D4: the body does not even compile in its extracted form (a rewrite rule or a shim no longer fits the changed code):
            # it is replaced by a stub; the contract stays as an assumption for the callers, the function is undecided
            ed.edits = [e for e in ed.edits if not (sub['body_open'] <= e[0] and e[1] <= sub['b'])]
            ed.add(sub['body_open'], sub['b'], '{ unimplemented!() }', tagbase + 'D4')
            self.rule('D4', path, line_of(text, sub['hdr_a']), 'body of `%s` replaced by a stub: it no longer compiles in its extracted form' % qual)
        if mode == 'external_body':
            ed.edits.insert(0, (sub['hdr_a'], sub['hdr_a'], '#[verifier::external_body]\n', tagbase + 'external_body'))
            self.report['assumptions'].append(dict(where=qname, what='external_body',
                                                   text=ov.get('why', 'body not verified by Verus; contract assumed here')))
        elif mode != 'verify':
            raise LostAnchor("unknown mode %s" % mode)
        if ov.get('attrs'):
            ed.edits.insert(0, (sub['hdr_a'], sub['hdr_a'], ov['attrs'].strip() + '\n', tagbase + 'attrs'))
        # insert contract just before body_open (or ';')
        ins = sig_end if where is None else body_open
        # contracts go after where clause, immediately before '{'
        ins = body_open
        # strip whitespace before '{' is kept; insert text
        for (t, tag) in pieces:
            ed.add(ins, ins, t, tag) if False else None
        if split:
            ed.edits.append((ins, ins, self._split_prefix, tagbase + 'T2'))
        if pieces:
            # combine into sequential zero-width edits: Edits.render sorts by (a,b) stable → keep order
            for (t, tag) in pieces:
                ed.edits.append((ins, ins, t, tag))
        # who owns proof steps / body obligations of this function: its safety owner, the owners of its own clauses, and
        # (for a trait impl method) the owners of the clauses on the trait method declaration it must satisfy
        own = set()
        so = ov.get('safety_owner', f.get('safety_owner'))
        for o in ([so] if isinstance(so, str) else (so or [])):
            own.add(o)
        for e in ens:
            for o in ([e['owner']] if isinstance(e['owner'], str) else e['owner']):
                own.add(o)
        if ' for ' in item_key:
            for fo in self.fn_overlays:
                if fo['name'] == name and 'trait' in fo.get('item', ''):
                    for e in fo.get('ensures', []):
                        for o in ([e['owner']] if isinstance(e['owner'], str) else e['owner']):
                            own.add(o)
        body_owner = sorted(own)
        self.obl['safety:' + qname] = dict(owner=body_owner, label='safety',
                                           fn=qname, kind='safety', assumed=(mode != 'verify'))
        # loops
        if sub['body_open'] is not None and not (forced and ov.get('mode', 'verify') == 'verify'):
            body_a, body_b = sub['body_open'], sub['b']
            for li, lp in enumerate(ov.get('loop', [])):
                hdr = lp['header']
                occ = lp.get('occurrence', 1)
                try:
                    pos = self.find_occurrence(text, mask, hdr, occ, body_a, body_b, qname)
                except LostAnchor as e:
                    # proof text no longer matches the code: keep going without it; the function becomes
                    # "undecided" (runner: only a natively replayed counterexample can raise an alarm)
                    self.report.setdefault('lost_anchors', []).append(dict(fn=qname, kind='loop', anchor=hdr))
                    if not any(t == tagbase + 'nodecreases' for (_, _, _, t) in ed.edits):
                        # first among the zero-width edits at the fn header (a `pub ` added by T1 must stay next to `fn`)
                        ed.edits.insert(0, (sub['hdr_a'], sub['hdr_a'], '#[verifier::exec_allows_no_decreases_clause]\n', tagbase + 'nodecreases'))
                    continue
                brace = pos + len(hdr) - 1
                if text[brace] != '{':
                    raise LostAnchor("loop header must end with '{': %r" % hdr)
                tag = tagbase + 'loop%d' % (li + 1)
                self.obl[tag] = dict(owner=lp.get('owner', body_owner),
                                     label='loop%d' % (li + 1), fn=qname, kind='inv')
                ed.edits.append((brace, brace, '\n' + lp['clauses'].rstrip() + '\n', tag))
                if lp.get('iter_name'):
                    k = hdr.find(' in ')
                    if not hdr.startswith('for ') or k < 0:
                        raise LostAnchor("iter_name on a non-for loop: %r" % hdr)
                    ed.edits.append((pos + k + 4, pos + k + 4, lp['iter_name'] + ': ', tag + ':iter'))
            for hi, h in enumerate(ov.get('hint', [])):
                occ = h.get('occurrence', 1)
                tag = tagbase + 'hint%d' % (hi + 1)
                self.obl[tag] = dict(owner=h.get('owner', body_owner),
                                     label='hint%d' % (hi + 1), fn=qname, kind='hint')
                anchor = h.get('after', h.get('before', h.get('replace')))
                try:
                    self.find_occurrence(text, mask, anchor, occ, body_a, body_b, qname)
                except LostAnchor as e:
                    self.report.setdefault('lost_anchors', []).append(dict(fn=qname, kind='hint', anchor=anchor))
                    continue
                if 'after' in h:
                    pos = self.find_occurrence(text, mask, h['after'], occ, body_a, body_b, qname)
                    at = pos + len(h['after'])
                    ed.edits.append((at, at, '\n' + h['text'].rstrip() + '\n', tag))
                elif 'before' in h:
                    pos = self.find_occurrence(text, mask, h['before'], occ, body_a, body_b, qname)
                    ed.edits.append((pos, pos, h['text'].rstrip() + '\n', tag))
                elif 'replace' in h:
                    # ghost-only wrapper around an expression is not allowed; replace is reported as a rewrite
                    pos = self.find_occurrence(text, mask, h['replace'], occ, body_a, body_b, qname)
                    ed.add(pos, pos + len(h['replace']), h['text'], tag)
                    self.rule('RW', path, line_of(text, pos), '`%s` -> `%s` (%s)' % (h['replace'], h['text'], h.get('why', '')))
                else:
                    raise LostAnchor("hint without anchor in %s" % qname)
        self.report['functions'].append(dict(fn=qname, contract=True, mode=mode,
                                             ensures=[e['label'] for e in ens],
                                             requires=len(reqs)))

    def find_occurrence(self, text, mask, needle, occ, a, b, qname):
        """Find occ-th occurrence of needle in text[a:b] (code positions only; whitespace-insensitive
        matching is NOT used: the anchor is the exact text)."""
        start = a
        count = 0
        while True:
            k = text.find(needle, start, b)
            if k < 0:
                raise LostAnchor("anchor %r (occurrence %d) not found in %s" % (needle, occ, qname))
            start = k + 1
            if not mask[k]:
                continue
            count += 1
            if count == occ:
                return k

    # -- output ----------------------------------------------------------------------------
    def text_out(self):
        return '\n'.join(l for (l, o, f) in self.out_lines) + '\n'

    def linemap(self):
        lm = []
        for (l, o, f) in self.out_lines:
            lm.append(dict(origin=list(o), fn=f))
        # a line produced by a rewrite rule inside a function body carries no source position: it belongs to the function whose
        # lines surround it (needed to attribute a diagnostic on it to that function)
        for i, e in enumerate(lm):
            if e['fn'] is None and e['origin'][0] == 'ovl':
                before = next((lm[j]['fn'] for j in range(i - 1, max(-1, i - 4), -1) if lm[j]['fn']), None)
                after = next((lm[j]['fn'] for j in range(i + 1, min(len(lm), i + 4)) if lm[j]['fn']), None)
                if before and before == after:
                    e['fn'] = before
        return lm


def build_unit(unit_name, outdir, force_external=None, drop_body=None):
    unit_path = os.path.join(CONTRACTS, 'units', unit_name + '.toml')
    u = Unit(unit_path)
    u.force_external = set(force_external or []) | set(drop_body or [])
    u.drop_body = set(drop_body or [])
    u.build()
    os.makedirs(outdir, exist_ok=True)
    out_rs = os.path.join(outdir, unit_name + '.rs')
    with open(out_rs, 'w') as f:
        f.write(u.text_out())
    meta = dict(report=u.report, linemap=u.linemap(), obligations=u.obl, inventory=u.inventory_out)
    with open(os.path.join(outdir, unit_name + '.map.json'), 'w') as f:
        json.dump(meta, f)
    return out_rs, meta


if __name__ == '__main__':
    try:
        out, meta = build_unit(sys.argv[1], sys.argv[2] if len(sys.argv) > 2 else '/tmp/vx-out')
        print(out)
        print(json.dumps(meta['report'], indent=1)[:4000])
    except LostAnchor as e:
        print("LOST-ANCHOR: %s" % e)
        sys.exit(2)
