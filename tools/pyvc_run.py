def run(job, work):
    return dict(inconclusive='pyvc not built yet')
