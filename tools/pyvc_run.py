"""Run tools/pyvc.py (own WP generator + Z3 for RPSPolicer.get_timeout) under the tooling venv and return its report."""
import json
import os
import subprocess

HERE = os.path.dirname(os.path.dirname(os.path.abspath(__file__)))


def run(job, work):
    tool = job.get('tool', 'pyvc')   # pyvc: WP + Z3 (policer.py);  pyglue: typestate checker for the client glue
    interp = 'python3' if tool == 'pyglue' else 'python3-vt'
    r = subprocess.run([interp, os.path.join(HERE, 'tools', tool + '.py')], stdout=subprocess.PIPE, stderr=subprocess.PIPE, text=True)
    try:
        d = json.loads(r.stdout)
    except Exception:
        return dict(inconclusive=tool + ' produced no report: ' + (r.stderr or r.stdout)[-500:])
    if 'inconclusive' in d:
        return d
    # canary: the generator must be able to refute a false claim (delay < delta is false: delay == delta is reachable? no —
    # use a claim that is false on path "not enough time passed": release == ts)
    return d
