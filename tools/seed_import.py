#!/usr/bin/env python3
"""seed_import.py <worktree> <seed-id> <property> <needs...>  — copy a confirmed seeded change into /verif/seeded/<seed-id>/"""
import sys, os, shutil, json, subprocess
wt, sid, prop, needs = sys.argv[1], sys.argv[2], sys.argv[3], ' '.join(sys.argv[4:])
dst = os.path.join('/verif/seeded', sid)
os.makedirs(dst, exist_ok=True)
for f in ('patch.diff', 'demo.diff', 'demo.py', 'notes.md'):
    if os.path.exists(os.path.join(wt, 'SEED', f)):
        shutil.copy(os.path.join(wt, 'SEED', f), os.path.join(dst, f))
base = subprocess.run(['git', '-C', '/repo', 'rev-parse', '--short', 'HEAD'], capture_output=True, text=True).stdout.strip()
meta = dict(id=sid, breaks_property=prop, needs_to_manifest=needs, base_commit=base,
            origin="fresh sub-agent given only the property text and a scratch worktree",
            confirmed_by="tools/seed_confirm.sh <dir> seeded_demo: patch alone -> 104/104 pinned tests pass; clean+demo -> demo passes; patch+demo -> demo fails",
            files=dict(patch="patch.diff", demonstration=("demo.diff" if os.path.exists(os.path.join(dst, 'demo.diff')) else "demo.py"), notes="notes.md"),
            detected_by=None)
json.dump(meta, open(os.path.join(dst, 'meta.json'), 'w'), indent=1)
print("imported", dst)
