#!/usr/bin/env python3-vt
"""pyvc — a small weakest-precondition / path-condition generator for ONE Python function
(src/gufo/snmp/policer.py :: RPSPolicer.get_timeout) with Z3 as back end.  Property C19.

Subset (anything else => exit 2, never an alarm):
  statements : docstring, if / elif / else, assignment to a local or to self.<attr>, augmented assignment (+= -=),
               return <expr> | return None | return
  expressions: int literals, None, parameters, locals, self.<attr>, module-level numeric constants,
               + - * // (divisor must be provably positive on the path), unary -, comparisons < <= > >= == !=,
               `is None`, `is not None`, and / or / not
  values     : Python ints are mathematical integers (SMT Int: exact); an Optional[int] is a pair (is_none, value);
               a module constant with an integral float value (NS = 1_000_000_000.0) is that integer — comparisons
               between Python ints and floats are exact, so this is not an approximation.

Contract (taken from the property statement, with the ghost variable `last` = time of the previous release):
  requires  delta > 0  and  ts >= last  and  (prev is None  or  prev <= last < prev + delta)
  ensures   R1  0 <= delay <= delta                       (a request is never delayed by more than one interval)
            R2  prev' is not None and prev' <= release < prev' + delta     (the release lies in its slot: invariant)
            R3  prev is not None  ==>  prev' >= prev + delta               (every request gets a later slot)
            R4  prev is None      ==>  release == ts                        (first request passes at once)
            R5  delta' == delta                                             (the interval is never changed)
  where delay = returned value or 0, release = ts + delay.
Second contract (BasePolicer.wait / wait_sync; the callee get_timeout is used BY CONTRACT: its result is an arbitrary
Optional[int] d, the clock value an arbitrary int):
  ensures   W1  the function sleeps at most once
            W2  the time slept is exactly max(d, 0) ns when d is not None, and nothing when d is None
  extra subset for these two functions: `x = self.get_timeout(perf_counter_ns())`, truthiness of an Optional[int] local
  (`delta and delta > 0`, short-circuit), and the statement `[await asyncio.]sleep(float(<int expr>) / NS)` which is
  recorded as "slept <int expr> ns" (float(x) / 1e9 seconds; the float rounding of the seconds value is not modelled).
Induction lemma (pure Z3, over the facts R2/R3 of k+1 consecutive calls):
            slots advance by >= delta and each release lies in its slot  ==>  release_{i+k} - release_i > (k-1)*delta.
"""
import ast
import json
import os
import sys
import time

import z3

REPO = os.environ.get("VERIF_REPO", "/repo")
SRC = os.path.join(REPO, "src/gufo/snmp/policer.py")


class Unsupported(Exception):
    pass


class Opt:
    """Optional[int]: (is_none: z3 Bool, val: z3 Int)."""

    def __init__(self, is_none, val):
        self.is_none = is_none
        self.val = val


def INT(v):
    return Opt(z3.BoolVal(False), v)


NONE = Opt(z3.BoolVal(True), z3.IntVal(0))


class Path:
    def __init__(self, cond, env, ret=None, fresh=None):
        self.cond = cond          # list of z3 Bool
        self.env = env            # name -> Opt ; 'self._x' -> Opt
        self.ret = ret            # Opt or None (still running)
        self.fresh = fresh or []  # (q, a, b) division witnesses


class Exec:
    def __init__(self, consts):
        self.consts = consts
        self.counter = 0
        self.side = []   # obligations generated during execution (divisor positive, operand not None)

    def fresh_int(self, name):
        self.counter += 1
        return z3.Int("%s_%d" % (name, self.counter))

    def expr(self, e, p):
        if isinstance(e, ast.Constant):
            if e.value is None:
                return NONE
            if isinstance(e.value, bool):
                raise Unsupported("bool constant")
            if isinstance(e.value, int):
                return INT(z3.IntVal(e.value))
            raise Unsupported("constant %r" % (e.value,))
        if isinstance(e, ast.Name):
            if e.id in p.env:
                return p.env[e.id]
            if e.id in self.consts:
                return INT(z3.IntVal(self.consts[e.id]))
            raise Unsupported("name %s" % e.id)
        if isinstance(e, ast.Attribute) and isinstance(e.value, ast.Name) and e.value.id == 'self':
            k = 'self.' + e.attr
            if k not in p.env:
                raise Unsupported("attribute %s" % k)
            return p.env[k]
        if isinstance(e, ast.UnaryOp) and isinstance(e.op, ast.USub):
            a = self.expr(e.operand, p)
            self.need_int(a, p, e)
            return INT(-a.val)
        if isinstance(e, ast.BinOp):
            a = self.expr(e.left, p)
            b = self.expr(e.right, p)
            self.need_int(a, p, e)
            self.need_int(b, p, e)
            if isinstance(e.op, ast.Add):
                return INT(a.val + b.val)
            if isinstance(e.op, ast.Sub):
                return INT(a.val - b.val)
            if isinstance(e.op, ast.Mult):
                return INT(a.val * b.val)
            if isinstance(e.op, ast.FloorDiv):
                # Python floor division with a positive divisor: q*b <= a < (q+1)*b
                self.side.append((list(p.cond), b.val > 0, "divisor of // positive at line %d" % e.lineno))
                q = self.fresh_int('q')
                p.cond.append(z3.And(q * b.val <= a.val, a.val < (q + 1) * b.val))
                return INT(q)
            raise Unsupported("operator %s" % type(e.op).__name__)
        raise Unsupported("expression %s" % ast.dump(e)[:80])

    def need_int(self, v, p, node):
        self.side.append((list(p.cond), z3.Not(v.is_none), "operand is an int (not None) at line %d" % node.lineno))

    def cond(self, e, p):
        if isinstance(e, ast.BoolOp):
            # short-circuit: the side conditions of a later operand are generated under the earlier ones
            vs = []
            q = Path(list(p.cond), p.env)
            for v in e.values:
                c = self.cond(v, q)
                vs.append(c)
                q = Path(q.cond + [c if isinstance(e.op, ast.And) else z3.Not(c)], p.env)
            return z3.And(*vs) if isinstance(e.op, ast.And) else z3.Or(*vs)
        if isinstance(e, ast.Name) and e.id in p.env:
            # truthiness of an Optional[int]: not None and not 0
            v = p.env[e.id]
            return z3.And(z3.Not(v.is_none), v.val != 0)
        if isinstance(e, ast.UnaryOp) and isinstance(e.op, ast.Not):
            return z3.Not(self.cond(e.operand, p))
        if isinstance(e, ast.Compare) and len(e.ops) == 1:
            op = e.ops[0]
            a = self.expr(e.left, p)
            b = self.expr(e.comparators[0], p)
            if isinstance(op, ast.Is):
                if not (isinstance(e.comparators[0], ast.Constant) and e.comparators[0].value is None):
                    raise Unsupported("`is` with non-None")
                return a.is_none
            if isinstance(op, ast.IsNot):
                return z3.Not(a.is_none)
            self.need_int(a, p, e)
            self.need_int(b, p, e)
            m = {ast.Lt: lambda x, y: x < y, ast.LtE: lambda x, y: x <= y, ast.Gt: lambda x, y: x > y,
                 ast.GtE: lambda x, y: x >= y, ast.Eq: lambda x, y: x == y, ast.NotEq: lambda x, y: x != y}
            if type(op) not in m:
                raise Unsupported("comparison %s" % type(op).__name__)
            return m[type(op)](a.val, b.val)
        # truthiness of an int / Optional is not in the subset
        raise Unsupported("condition %s" % ast.dump(e)[:80])

    def block(self, stmts, paths):
        for st in stmts:
            nxt = []
            for p in paths:
                if p.ret is not None:
                    nxt.append(p)
                    continue
                nxt += self.stmt(st, p)
            paths = nxt
        return paths

    def stmt(self, st, p):
        if isinstance(st, ast.Expr) and isinstance(st.value, ast.Constant) and isinstance(st.value.value, str):
            return [p]
        if isinstance(st, ast.Return):
            v = NONE if st.value is None else self.expr(st.value, p)
            return [Path(p.cond, p.env, ret=v)]
        if isinstance(st, ast.Assign) and len(st.targets) == 1 and self.is_get_timeout_call(st.value):
            # modular call: the result of self.get_timeout(<clock>) is an arbitrary Optional[int] (callee contract above)
            self.counter += 1
            v = Opt(z3.Bool("gt_is_none_%d" % self.counter), z3.Int("gt_val_%d" % self.counter))
            env = dict(p.env)
            env[self.target(st.targets[0])] = v
            env['@calls'] = p.env.get('@calls', []) + [v]
            return [Path(p.cond, env)]
        if isinstance(st, ast.Expr) and self.sleep_arg(st.value) is not None:
            ns = self.expr(self.sleep_arg(st.value), p)
            self.need_int(ns, p, st)
            env = dict(p.env)
            env['@sleeps'] = p.env.get('@sleeps', []) + [ns.val]
            return [Path(p.cond, env)]
        if isinstance(st, ast.Expr) and self.sleep_call(st.value) is not None:
            # any other arithmetic on the delay (seconds): evaluated exactly, in nanoseconds over the reals
            ns = self.seconds_as_ns(self.sleep_call(st.value), p)
            env = dict(p.env)
            env['@sleeps'] = p.env.get('@sleeps', []) + [ns]
            return [Path(p.cond, env)]
        if isinstance(st, ast.Assign) and len(st.targets) == 1:
            v = self.expr(st.value, p)
            env = dict(p.env)
            env[self.target(st.targets[0])] = v
            return [Path(p.cond, env)]
        if isinstance(st, ast.AugAssign):
            k = self.target(st.target)
            cur = p.env.get(k)
            if cur is None:
                raise Unsupported("augmented assignment to unknown %s" % k)
            v = self.expr(st.value, p)
            self.need_int(cur, p, st)
            self.need_int(v, p, st)
            if isinstance(st.op, ast.Add):
                nv = cur.val + v.val
            elif isinstance(st.op, ast.Sub):
                nv = cur.val - v.val
            else:
                raise Unsupported("augmented operator")
            env = dict(p.env)
            env[k] = INT(nv)
            return [Path(p.cond, env)]
        if isinstance(st, ast.If):
            c = self.cond(st.test, p)
            pt = Path(p.cond + [c], dict(p.env))
            pf = Path(p.cond + [z3.Not(c)], dict(p.env))
            return self.block(st.body, [pt]) + self.block(st.orelse, [pf])
        raise Unsupported("statement %s at line %d" % (type(st).__name__, st.lineno))

    @staticmethod
    def is_get_timeout_call(e):
        return (isinstance(e, ast.Call) and isinstance(e.func, ast.Attribute) and e.func.attr == 'get_timeout'
                and isinstance(e.func.value, ast.Name) and e.func.value.id == 'self' and len(e.args) == 1 and not e.keywords
                and isinstance(e.args[0], ast.Call) and isinstance(e.args[0].func, ast.Name) and e.args[0].func.id == 'perf_counter_ns'
                and not e.args[0].args)

    @staticmethod
    def sleep_arg(e):
        """`[await] [asyncio.]sleep(float(X) / NS)` -> X, else None."""
        if isinstance(e, ast.Await):
            e = e.value
        if not (isinstance(e, ast.Call) and len(e.args) == 1 and not e.keywords):
            return None
        f = e.func
        is_sleep = (isinstance(f, ast.Name) and f.id == 'sleep') or (
            isinstance(f, ast.Attribute) and f.attr == 'sleep' and isinstance(f.value, ast.Name) and f.value.id == 'asyncio')
        a = e.args[0]
        if not (is_sleep and isinstance(a, ast.BinOp) and isinstance(a.op, ast.Div) and isinstance(a.right, ast.Name) and a.right.id == 'NS'):
            return None
        n = a.left
        if isinstance(n, ast.Call) and isinstance(n.func, ast.Name) and n.func.id == 'float' and len(n.args) == 1:
            return n.args[0]
        return None

    @staticmethod
    def sleep_call(e):
        """`[await] [asyncio.]sleep(E)` -> E, else None."""
        if isinstance(e, ast.Await):
            e = e.value
        if not (isinstance(e, ast.Call) and len(e.args) == 1 and not e.keywords):
            return None
        f = e.func
        if (isinstance(f, ast.Name) and f.id == 'sleep') or (isinstance(f, ast.Attribute) and f.attr == 'sleep' and isinstance(f.value, ast.Name) and f.value.id == 'asyncio'):
            return e.args[0]
        return None

    def seconds_as_ns(self, e, p):
        """A float expression in seconds built from `float(X) / NS` (X an int of nanoseconds), numeric constants, + - and max / min:
        its exact value in nanoseconds as a z3 real (binary floating point rounding of the real code is not modelled)."""
        if isinstance(e, ast.BinOp) and isinstance(e.op, ast.Div) and isinstance(e.right, ast.Name) and e.right.id == 'NS' \
                and isinstance(e.left, ast.Call) and isinstance(e.left.func, ast.Name) and e.left.func.id == 'float' and len(e.left.args) == 1:
            x = self.expr(e.left.args[0], p)
            self.need_int(x, p, e)
            return z3.ToReal(x.val)
        if isinstance(e, ast.BinOp) and isinstance(e.op, (ast.Add, ast.Sub)):
            a, b = self.seconds_as_ns(e.left, p), self.seconds_as_ns(e.right, p)
            return a + b if isinstance(e.op, ast.Add) else a - b
        if isinstance(e, ast.Call) and isinstance(e.func, ast.Name) and e.func.id in ('max', 'min') and len(e.args) == 2 and not e.keywords:
            a, b = self.seconds_as_ns(e.args[0], p), self.seconds_as_ns(e.args[1], p)
            return z3.If(a >= b, a, b) if e.func.id == 'max' else z3.If(a <= b, a, b)
        if isinstance(e, ast.Constant) and isinstance(e.value, (int, float)) and not isinstance(e.value, bool):
            return z3.RealVal(repr(e.value)) * 1000000000
        if isinstance(e, ast.Name) and e.id in FLOAT_CONSTS:
            return z3.RealVal(repr(FLOAT_CONSTS[e.id])) * 1000000000
        raise Unsupported("sleep argument %s" % ast.dump(e)[:80])

    def target(self, t):
        if isinstance(t, ast.Name):
            return t.id
        if isinstance(t, ast.Attribute) and isinstance(t.value, ast.Name) and t.value.id == 'self':
            return 'self.' + t.attr
        raise Unsupported("assignment target")


FLOAT_CONSTS = {}   # module-level numeric constants in seconds (ZERO = 0.0 and whatever a change adds)


def module_consts(tree):
    consts = {}
    for st in tree.body:
        if isinstance(st, ast.Assign) and len(st.targets) == 1 and isinstance(st.targets[0], ast.Name) and isinstance(st.value, ast.Constant):
            v = st.value.value
            if isinstance(v, bool):
                continue
            if isinstance(v, (int, float)) and st.targets[0].id != 'NS':
                FLOAT_CONSTS[st.targets[0].id] = v
            if isinstance(v, int):
                consts[st.targets[0].id] = v
            elif isinstance(v, float) and v == int(v):
                consts[st.targets[0].id] = int(v)
    return consts


def find_method(tree, cls, name):
    for st in tree.body:
        if isinstance(st, ast.ClassDef) and st.name == cls:
            for m in st.body:
                if isinstance(m, (ast.FunctionDef, ast.AsyncFunctionDef)) and m.name == name:
                    return m
    return None


def replay_native(prev, delta, ts):
    """Run the real get_timeout on concrete values; returns (ret, prev', delta')."""
    import importlib.util
    spec = importlib.util.spec_from_file_location("policer_under_test", SRC)
    mod = importlib.util.module_from_spec(spec)
    spec.loader.exec_module(mod)
    o = mod.RPSPolicer.__new__(mod.RPSPolicer)
    o._prev = prev
    o._delta = delta
    r = o.get_timeout(ts)
    return r, o._prev, o._delta


def replay_wait(name, d):
    """Run the real wait()/wait_sync() with a policer whose get_timeout returns d; returns the list of sleeps in ns."""
    import importlib.util, asyncio
    spec = importlib.util.spec_from_file_location("policer_under_test_w", SRC)
    mod = importlib.util.module_from_spec(spec)
    spec.loader.exec_module(mod)
    slept = []

    class P(mod.BasePolicer):
        def get_timeout(self, ts):
            return d

    async def asleep(x):
        slept.append(round(x * 1e9))
    mod.sleep = lambda x: slept.append(round(x * 1e9))
    real = mod.asyncio.sleep
    mod.asyncio.sleep = asleep
    try:
        if name == 'wait':
            asyncio.run(P().wait())
        else:
            P().wait_sync()
    finally:
        mod.asyncio.sleep = real
    return slept


def check_waits(tree, ex_consts, out, obligations):
    """W1/W2 for BasePolicer.wait and wait_sync."""
    for name in ('wait', 'wait_sync'):
        fn = find_method(tree, 'BasePolicer', name)
        if fn is None:
            raise Unsupported("BasePolicer.%s is gone" % name)
        if [a.arg for a in fn.args.args] != ['self']:
            raise Unsupported("signature of %s changed" % name)
        ex = Exec(ex_consts)
        paths = ex.block(fn.body, [Path([], {})])
        for i, (conds, goal, desc) in enumerate(ex.side):
            s = z3.Solver()
            for h in conds:
                s.add(h)
            s.add(z3.Not(goal))
            r = s.check()
            obligations.append(dict(id="%s.safe%d" % (name, i), fn='BasePolicer.' + name, where=desc, ok=(r == z3.unsat), unknown=(r == z3.unknown)))
        for pi, p in enumerate(paths):
            calls = p.env.get('@calls', [])
            sleeps = p.env.get('@sleeps', [])
            if len(calls) != 1:
                raise Unsupported("%s: get_timeout is called %d times on a path" % (name, len(calls)))
            d = calls[0]
            want = z3.If(d.is_none, z3.IntVal(0), z3.If(d.val > 0, d.val, z3.IntVal(0)))
            total = z3.IntVal(0)
            for x in sleeps:
                total = total + x
            for oid, goal in (("W1_sleeps_at_most_once", z3.BoolVal(len(sleeps) <= 1)), ("W2_sleeps_exactly_the_delay", total == want)):
                s = z3.Solver()
                for h in p.cond:
                    s.add(h)
                s.add(z3.Not(goal))
                t1 = time.time()
                r = s.check()
                out['solver_ms'] += int((time.time() - t1) * 1000)
                ob = dict(id="%s.P%d.%s" % (name, pi, oid), fn='BasePolicer.' + name, where="path %d" % pi, ok=(r == z3.unsat), unknown=(r == z3.unknown))
                if r == z3.sat:
                    m = s.model()
                    dv = None if z3.is_true(m.eval(d.is_none, model_completion=True)) else m.eval(d.val, model_completion=True).as_long()
                    ob['message'] = 'counterexample: get_timeout returns %s' % dv
                    try:
                        got = replay_wait(name, dv)
                        exp = dv if (dv is not None and dv > 0) else 0
                        ob['replay'] = dict(input=dict(get_timeout_returns=dv), native=dict(slept_ns=got, expected_ns=exp),
                                            replayed_natively=(sum(got) != exp or len(got) > 1), harness='pyvc native replay of BasePolicer.%s' % name)
                    except Exception as e:  # noqa
                        ob['replay'] = dict(input=dict(get_timeout_returns=dv), replayed_natively=False, error=str(e))
                obligations.append(ob)
            s = z3.Solver()
            for h in p.cond:
                s.add(h)
            out['guards'].append(dict(guard='path-reachable', fn=name, path=pi, result=str(s.check())))
        out['functions'].append(dict(fn='src/gufo/snmp/policer.py :: BasePolicer.' + name, contract=True, mode='pyvc-wp', paths=len(paths)))


def main():
    t0 = time.time()
    out = dict(obligations=[], assumptions=[], functions=[], guards=[], solver_ms=0)
    try:
        src = open(SRC).read()
        tree = ast.parse(src)
        fn = find_method(tree, 'RPSPolicer', 'get_timeout')
        if fn is None:
            raise Unsupported("RPSPolicer.get_timeout is gone")
        args = [a.arg for a in fn.args.args]
        if args != ['self', 'ts']:
            raise Unsupported("signature changed: %s" % args)
        ex = Exec(module_consts(tree))
        prev_none = z3.Bool('prev_is_none')
        prev_v = z3.Int('prev')
        delta = z3.Int('delta')
        ts = z3.Int('ts')
        last = z3.Int('last')
        env = {'ts': INT(ts), 'self._prev': Opt(prev_none, prev_v), 'self._delta': INT(delta)}
        paths = ex.block(fn.body, [Path([], env)])
        # falling off the end returns None
        paths = [p if p.ret is not None else Path(p.cond, p.env, ret=NONE) for p in paths]
    except Unsupported as e:
        print(json.dumps(dict(inconclusive="unsupported construct: %s" % e)))
        return 2
    pre = z3.And(delta > 0, ts >= last, z3.Or(prev_none, z3.And(prev_v <= last, last < prev_v + delta)))
    obligations = []

    def check(name, hyps, goal, where, path_id=None):
        s = z3.Solver()
        s.set('timeout', 20000)
        s.add(pre)
        for h in hyps:
            s.add(h)
        s.add(z3.Not(goal))
        t1 = time.time()
        r = s.check()
        out['solver_ms'] += int((time.time() - t1) * 1000)
        ob = dict(id=name, fn='RPSPolicer.get_timeout', where=where, ok=(r == z3.unsat))
        if r == z3.sat:
            m = s.model()
            pv = None if z3.is_true(m.eval(prev_none, model_completion=True)) else m.eval(prev_v, model_completion=True).as_long()
            dv = m.eval(delta, model_completion=True).as_long()
            tv = m.eval(ts, model_completion=True).as_long()
            lv = m.eval(last, model_completion=True).as_long()
            ob['message'] = 'counterexample: prev=%s delta=%s last_release=%s ts=%s' % (pv, dv, lv, tv)
            try:
                ret, p2, d2 = replay_native(pv, dv, tv)
                ob['replay'] = dict(input=dict(prev=pv, delta=dv, last_release=lv, ts=tv), native=dict(ret=ret, prev_after=p2, delta_after=d2),
                                    replayed_natively=True, harness='pyvc native replay of RPSPolicer.get_timeout')
            except Exception as e:  # noqa
                ob['replay'] = dict(input=dict(prev=pv, delta=dv, last_release=lv, ts=tv), replayed_natively=False, error=str(e))
        elif r == z3.unknown:
            ob['unknown'] = True
        obligations.append(ob)

    # side conditions generated while executing (operands are ints, divisors positive)
    for i, (conds, goal, desc) in enumerate(ex.side):
        check("safe%d" % i, conds, goal, desc)
    for pi, p in enumerate(paths):
        delay = z3.If(p.ret.is_none, z3.IntVal(0), p.ret.val)
        release = ts + delay
        np_ = p.env['self._prev']
        nd = p.env['self._delta']
        line = "path %d" % pi
        check("P%d.R1_delay_at_most_one_interval" % pi, p.cond, z3.And(delay >= 0, delay <= delta), line)
        check("P%d.R2_release_in_its_slot" % pi, p.cond, z3.And(z3.Not(np_.is_none), np_.val <= release, release < np_.val + delta), line)
        check("P%d.R3_later_slot" % pi, p.cond, z3.Implies(z3.Not(prev_none), np_.val >= prev_v + delta), line)
        check("P%d.R4_first_request_passes" % pi, p.cond, z3.Implies(prev_none, release == ts), line)
        check("P%d.R5_interval_unchanged" % pi, p.cond, z3.And(z3.Not(nd.is_none), nd.val == delta), line)
        # vacuity: the path is reachable under the precondition
        s = z3.Solver()
        s.add(pre)
        for h in p.cond:
            s.add(h)
        out['guards'].append(dict(guard='path-reachable', path=pi, result=str(s.check())))
    # canary: a FALSE claim (delay strictly smaller than the interval on every path) must be refuted, else the generator
    # or the solver is not checking anything
    refuted = False
    for p in paths:
        delay = z3.If(p.ret.is_none, z3.IntVal(0), p.ret.val)
        s = z3.Solver()
        s.add(pre)
        for h in p.cond:
            s.add(h)
        s.add(z3.Not(delay < delta))
        if s.check() == z3.sat:
            refuted = True
    out['guards'].append(dict(guard='pyvc-canary', claim='delay < delta on every path (false)', result='refuted' if refuted else 'NOT-REFUTED'))
    if not refuted:
        print(json.dumps(dict(inconclusive="pyvc canary: a false claim was not refuted")))
        return 2
    # induction lemma over k+1 consecutive calls (R2, R3 as hypotheses): span > (k-1)*delta  — by induction on k
    k = z3.Int('k')
    pi_, pk, ri, rk, d = z3.Ints('slot_i slot_ik rel_i rel_ik d')
    s = z3.Solver()
    s.add(d > 0, k >= 1, pk >= pi_ + k * d, pi_ <= ri, ri < pi_ + d, pk <= rk, rk < pk + d)
    s.add(z3.Not(rk - ri > (k - 1) * d))
    r = s.check()
    obligations.append(dict(id="L1_rate_lemma_span_of_k_plus_1_releases", fn='lemma', where='slots k*delta apart, releases inside their slots', ok=(r == z3.unsat)))
    # and the slot distance: R3 chained k times (induction step)
    a, b, c = z3.Ints('slot_a slot_b slot_c')
    s = z3.Solver()
    s.add(d > 0, k >= 1, b >= a + k * d, c >= b + d, z3.Not(c >= a + (k + 1) * d))
    r = s.check()
    obligations.append(dict(id="L2_slots_k_steps_apart_induction_step", fn='lemma', where='R3 chained', ok=(r == z3.unsat)))
    out['functions'] = [dict(fn='src/gufo/snmp/policer.py :: RPSPolicer.get_timeout', contract=True, mode='pyvc-wp', paths=len(paths))]
    try:
        check_waits(tree, module_consts(tree), out, obligations)
    except Unsupported as e:
        print(json.dumps(dict(inconclusive="unsupported construct: %s" % e)))
        return 2
    if any(o.get('unknown') for o in obligations):
        print(json.dumps(dict(inconclusive="z3 returned unknown for %s" % [o['id'] for o in obligations if o.get('unknown')])))
        return 2
    out['obligations'] = obligations
    out['assumptions'] = [
        "[pyvc] RPSPolicer.__init__ (float arithmetic int(NS / rps)) is not modelled: delta > 0 after construction is assumed (the constructor raises for rps <= 0 and for delta == 0)",
        "[pyvc] the clock is monotonic (ts >= previous release); sleep()/asyncio.sleep() return after the requested time; float(delay)/1e9 seconds is the delay (float rounding of the seconds value not modelled)",
        "[pyvc] the sessions call wait()/wait_sync() before every request (sync_client / async_client glue: read, not under contract)",
        "[pyvc] Python ints are mathematical integers (exact in SMT Int)",
    ]
    print(json.dumps(out))
    return 0


if __name__ == '__main__':
    sys.exit(main())
