#!/usr/bin/env python3
"""kanirun — weave Kani harness modules onto a scratch copy of the real crate (add-only),
run cargo kani under hard resource caps, parse verdicts from `Failed Checks:` lines only,
and replay counterexamples natively (cargo test on the same scratch copy, real code)."""
import os
import re
import sys
import json
import time
import shutil
import tomllib
import subprocess

HERE = os.path.dirname(os.path.dirname(os.path.abspath(__file__)))
REPO = os.environ.get("VERIF_REPO", "/repo")
CACHE = os.environ.get("VERIF_CACHE", "/var/tmp/gufo-verif-cache")
KDIR = os.path.join(HERE, 'contracts', 'kani')
MEM_KB = int(os.environ.get("VERIF_KANI_MEM_KB", str(24 * 1024 * 1024)))


def sh(cmd, cwd=None, env=None, timeout=None):
    e = dict(os.environ)
    e.update(env or {})
    e['CARGO_NET_OFFLINE'] = 'true'
    # Checks may run concurrently and share the build caches. Two scratch copies of the crate compile to the SAME artifact names in a
    # shared target directory, so a build of one check can replace the test binary / goto binary another check is about to run
    # (seen: "running 0 tests"). Every cargo invocation on a shared target directory holds an exclusive lock on it from build to run;
    # the timeout of the command starts once the lock is held.
    lock = None
    td = (env or {}).get('CARGO_TARGET_DIR')
    if td:
        import fcntl
        os.makedirs(td, exist_ok=True)
        lock = open(td.rstrip('/') + '.lock', 'w')
        fcntl.flock(lock, fcntl.LOCK_EX)
        # cargo decides freshness by source mtimes against the last build in this target directory - which may have been another
        # check's build of ANOTHER scratch copy, made after this copy was written ("Finished in 0.08s", then the wrong binary runs).
        # With the lock held, the sources of this copy are stamped now, so that this invocation rebuilds from them.
        srcdir = os.path.join(cwd or '.', 'src')
        if os.path.isdir(srcdir):
            now = time.time()
            for root, _dirs, files in os.walk(srcdir):
                for fn in files:
                    if fn.endswith('.rs'):
                        try:
                            os.utime(os.path.join(root, fn), (now, now))
                        except OSError:
                            pass
    try:
        r = subprocess.run(cmd, cwd=cwd, env=e, stdout=subprocess.PIPE, stderr=subprocess.STDOUT, text=True,
                           timeout=timeout, shell=isinstance(cmd, str))
        return r.returncode, r.stdout
    except subprocess.TimeoutExpired as ex:
        out = ex.stdout or ''
        if isinstance(out, bytes):
            out = out.decode(errors='replace')
        return 124, out + "\n[timeout after %ss]" % timeout
    finally:
        if lock is not None:
            lock.close()


def make_scratch(work):
    scratch = os.path.join(work, 'crate')
    if os.path.exists(scratch):
        return scratch
    rc, out = sh(['rsync', '-a', '--exclude', 'target', '--exclude', '.git', '--exclude', 'benchmarks', '--exclude', 'docs',
                  REPO + '/', scratch + '/'])
    if rc != 0:
        raise RuntimeError("rsync failed: " + out)
    return scratch


def parse_header(path):
    meta = {}
    for ln in open(path):
        m = re.match(r'//\s*@([a-z-]+):\s*(.*)', ln)
        if m:
            meta[m.group(1)] = m.group(2).strip()
        elif not ln.startswith('//'):
            break
    return meta


def weave(scratch, files, woven=None):
    """Append each harness file to its target source file (add-only)."""
    marker = os.path.join(scratch, '.woven')
    woven = set(open(marker).read().split()) if os.path.exists(marker) else set()
    try:
        _weave(scratch, files, woven)
    finally:
        open(marker, 'w').write(' '.join(sorted(woven)))


def _weave(scratch, files, woven):
    for f in files:
        if f in woven:
            continue
        p = os.path.join(KDIR, f)
        meta = parse_header(p)
        target = os.path.join(scratch, meta['append-to'])
        if not os.path.exists(target):
            raise RuntimeError("lost anchor: %s is gone (harness %s)" % (meta['append-to'], f))
        orig = open(os.path.join(REPO, meta['append-to'])).read()
        body = open(p).read()
        cur = open(target).read()
        with open(target, 'w') as fh:
            fh.write(cur + "\n// ---- woven by /verif/tools/kanirun.py from contracts/kani/%s (add-only)\n" % f + body)
        # add-only check: removing the appended text yields the repository file
        now = open(target).read()
        if not now.startswith(orig):
            raise RuntimeError("weave is not add-only for %s" % meta['append-to'])
        woven.add(f)


def parse_kani_output(out, names):
    """Split by harness and classify. Verdicts come from `Failed Checks:` lines (with location),
    `VERIFICATION:- SUCCESSFUL`, and cover results; anything else is inconclusive."""
    res = {}
    # sequential format:  "Checking harness X..." followed by its result block
    # parallel (-j) format: "Thread N: Checking harness X..." and later "Thread N: <newline>VERIFICATION RESULT: ..." blocks
    secs = {}
    cur_by_thread = {}
    cur = None
    buf = []
    mode_thread = re.search(r'(?m)^Thread \d+: Checking harness', out) is not None
    if not mode_thread:
        parts = re.split(r'(?m)^Checking harness ([^\s]+?)\.\.\.', out)
        for i in range(1, len(parts), 2):
            secs[parts[i]] = parts[i + 1]
    else:
        cur_thread = None
        for ln in out.splitlines():
            m = re.match(r'^Thread (\d+): Checking harness ([^\s]+?)\.\.\.', ln)
            if m:
                cur_by_thread[m.group(1)] = m.group(2)
                secs.setdefault(m.group(2), '')
                cur_thread = None
                continue
            m = re.match(r'^Thread (\d+): ?(.*)', ln)
            if m:
                cur_thread = m.group(1)
                h = cur_by_thread.get(cur_thread)
                if h:
                    secs[h] += m.group(2) + '\n'
                continue
            if re.match(r'^(Manual Harness Summary|Complete - )', ln):
                cur_thread = None
                continue
            if cur_thread is not None and cur_by_thread.get(cur_thread):
                secs[cur_by_thread[cur_thread]] += ln + '\n'
    for n in names:
        key = None
        for k in secs:
            if k.endswith('::' + n) or k == n:
                key = k
        if key is None:
            res[n] = dict(status='inconclusive', detail='harness did not run: ' + out[-1500:])
            continue
        t = secs[key]
        failed = re.findall(r'Failed Checks: (.*)\n\s*File: "([^"]+)", line (\d+), in (\S+)', t)
        tm = re.search(r'Verification Time: ([0-9.]+)s', t)
        time_s = float(tm.group(1)) if tm else 0.0
        cov = re.search(r'\*\* (\d+) of (\d+) cover properties satisfied', t)
        unwind_fail = [f for f in failed if 'unwinding assertion' in f[0]]
        if failed and not unwind_fail:
            res[n] = dict(status='failed', failed_checks=["%s @ %s:%s in %s" % f for f in failed], time_s=time_s,
                          detail='\n'.join("%s @ %s:%s in %s" % f for f in failed), raw=t[-6000:])
        elif unwind_fail:
            res[n] = dict(status='inconclusive', time_s=time_s,
                          detail='unwinding bound too small: ' + '; '.join("%s:%s" % (f[1], f[2]) for f in unwind_fail))
        elif 'VERIFICATION:- SUCCESSFUL' in t:
            if cov and cov.group(1) != cov.group(2):
                res[n] = dict(status='inconclusive', time_s=time_s, detail='vacuity guard: cover not satisfied (%s of %s)' % (cov.group(1), cov.group(2)))
            else:
                res[n] = dict(status='ok', time_s=time_s, detail='', covers=(cov.group(0) if cov else None))
        else:
            res[n] = dict(status='inconclusive', time_s=time_s, detail='no verdict (crash / timeout / memory): ' + t[-1200:])
        res[n]['playback'] = parse_playback(t)
    return res


def parse_playback(t):
    """Return list of concrete value lists (one per generated playback test)."""
    tests = []
    for m in re.finditer(r'/// Check for `([a-z_]+)`: "([^"]*)"\s*\n#\[test\]\s*\nfn (\w+)\(\) \{\s*\n\s*let concrete_vals: Vec<Vec<u8>> = vec!\[(.*?)\n\s*\];', t, re.S):
        vals = []
        for v in re.finditer(r'vec!\[([0-9, ]*)\]', m.group(4)):
            vals.append([int(x) for x in v.group(1).split(',') if x.strip()])
        tests.append(dict(check=m.group(1), desc=m.group(2), vals=vals))
    return tests


def kani_cmd(harnesses, playback=False, jobs=6):
    cmd = ['cargo', 'kani', '-Z', 'function-contracts', '-Z', 'stubbing']
    if playback:
        cmd += ['-Z', 'concrete-playback', '--concrete-playback=print']
    if len(harnesses) > 1:
        # up to 6 harnesses run side by side; more than that (thorough tier: 16 Buffer harnesses, several GB each) 4 at a time
        cmd += ['-j', str(jobs if len(harnesses) <= 7 else 4), '--output-format=terse']
    for h in harnesses:
        cmd += ['--harness', h]
    return cmd


def run_kani(scratch, harnesses, timeout_s, playback=False):
    env = {'CARGO_TARGET_DIR': os.path.join(CACHE, 'kani-target')}
    os.makedirs(env['CARGO_TARGET_DIR'], exist_ok=True)
    cmd = "ulimit -v %d; exec %s" % (MEM_KB, ' '.join(kani_cmd(harnesses, playback)))
    t0 = time.time()
    rc, out = sh(['bash', '-c', cmd], cwd=scratch, env=env, timeout=timeout_s)
    return rc, out, time.time() - t0


def run_jobs(prop, jobs, work, tier):
    scratch = make_scratch(work)
    woven = set()
    results = []
    guards = []
    assumptions = []
    for job in jobs:
        weave(scratch, job['files'] if 'files' in job else [job['file']], woven)
    # canary: a harness that must fail
    weave(scratch, ['canary.rs'], woven)
    all_h = []
    for job in jobs:
        for h in job['harnesses']:
            if tier == 'thorough' or h.get('tier', 'quick') == 'quick':
                all_h.append(h)
    names = [h['name'] for h in all_h] + ['verif_canary_must_fail']
    tmo = 7200 if tier == 'thorough' else 1500
    rc, out, wall = run_kani(scratch, names, tmo)
    if 'error: could not compile' in out or re.search(r'(?m)^error(\[E\d+\])?:', out) and 'Checking harness' not in out:
        for h in all_h:
            results.append(dict(h, status='inconclusive', detail='build failed: ' + out[-2500:]))
        return dict(harnesses=results, guards=guards, assumptions=assumptions, out=out)
    parsed = parse_kani_output(out, names)
    can = parsed['verif_canary_must_fail']
    if can['status'] != 'failed':
        for h in all_h:
            results.append(dict(h, status='inconclusive', detail='kani canary did not fail: ' + can.get('detail', '')[:500]))
        return dict(harnesses=results, guards=guards, assumptions=assumptions, out=out)
    guards.append(dict(guard='kani-canary', result='rejected-false-claim'))
    for h in all_h:
        p = parsed[h['name']]
        r = dict(h)
        r.update(status=p['status'], detail=p.get('detail', ''), time_s=p.get('time_s', 0.0), failed_checks=p.get('failed_checks', []))
        if p['status'] == 'failed' and h.get('replay'):
            # re-run this harness alone with concrete playback and replay natively
            r['concrete'] = find_and_replay(scratch, h)
        results.append(r)
        if p.get('covers'):
            guards.append(dict(guard='kani-cover', harness=h['name'], result=p['covers']))
    for job in jobs:
        for a in job.get('assumptions', []):
            assumptions.append("[kani] " + a)
    return dict(harnesses=results, guards=guards, assumptions=assumptions, out=out, wall_s=wall)


def vals_to_hex(vals, shape):
    """shape: 'bytes+len:N' — N single-byte values then a usize length (LE)."""
    m = re.match(r'bytes\+len:(\d+)', shape)
    if m:
        n = int(m.group(1))
        arr = [v[0] for v in vals[:n]]
        ln = int.from_bytes(bytes(vals[n]), 'little') if len(vals) > n else n
        ln = min(ln, n)
        return ''.join('%02x' % b for b in arr[:ln])
    m = re.match(r'raw', shape)
    return ''.join(''.join('%02x' % b for b in v) for v in vals)


_FINDER_CACHE = {}


_FINDER_STATUS = {}


def find_and_replay(scratch, h, where=None):
    """Run one finder harness with concrete playback; replay every distinct counterexample natively.
    Returns the candidate whose native panic location matches `where` (file:line) if there is one,
    else the first that fails natively, else the first candidate."""
    key = (scratch, h['name'])
    if key not in _FINDER_CACHE:
        rc, out, wall = run_kani(scratch, [h['name']], 900, playback=True)
        parsed = parse_kani_output(out, [h['name']])[h['name']]
        _FINDER_STATUS[key] = parsed.get('status')
        tests = [t for t in parsed.get('playback', []) if t['check'] != 'cover']
        cands = []
        seen = set()
        for t in tests[:8]:
            hexs = vals_to_hex(t['vals'], h.get('shape', 'raw'))
            if hexs in seen:
                continue
            seen.add(hexs)
            rep = native_replay(scratch, h['replay'], hexs)
            cands.append(dict(harness=h['name'], failed_check=t['desc'], input_hex=hexs, replay_test=h['replay'],
                              replayed_natively=rep['failed'], native_output=rep['tail'],
                              finder_bound=h.get('bound', h.get('shape'))))
        _FINDER_CACHE[key] = cands
    cands = _FINDER_CACHE[key]
    if not cands:
        return None
    if where:
        m = re.search(r'([A-Za-z0-9_/.]+\.rs):(\d+)', where)
        if m:
            loc = "%s:%s:" % (m.group(1), m.group(2))
            for c in cands:
                if c['replayed_natively'] and loc in c['native_output']:
                    return c
    for c in cands:
        if c['replayed_natively']:
            return c
    return cands[0]


def native_replay(scratch, test_name, hexs):
    env = {'CARGO_TARGET_DIR': os.path.join(CACHE, 'test-target'), 'VERIF_REPLAY_HEX': hexs, 'RUST_BACKTRACE': '0'}
    os.makedirs(env['CARGO_TARGET_DIR'], exist_ok=True)
    rc, out = sh(['cargo', 'test', '--offline', '--lib', test_name, '--', '--nocapture'], cwd=scratch, env=env, timeout=900)
    ran = re.search(r'running 1 test', out) is not None
    failed = ran and rc != 0 and ('panicked at' in out or 'FAILED' in out)
    k = out.find('running 1 test')
    return dict(failed=bool(failed), tail=(out[k:] if k >= 0 else out)[-1200:])


def find_counterexample(prop, violation, cfg, work, ran=None):
    """Bounded per-function finder behind a failed Verus obligation. Never decides anything.
    `ran` (a list) receives one entry per finder that ran to completion on the function and found nothing, with `covers` = the finder
    drives exactly this function against its independent reference (its `covers` patterns), not just code in the same file."""
    finders = cfg.get('finders', [])
    fn = violation.get('fn') or ''
    for f in finders:
        if re.search(f['match'], fn):
            covers = any(re.search(c, fn) for c in f.get('covers', []))
            scratch = make_scratch(work)
            weave(scratch, f.get('files', [f['file']]))
            if f.get('native'):
                # a native sampling finder: a #[test] that walks a stated family of inputs on the real code and panics
                # on the first disagreement with an independent reference (never decides; only supplies a replay)
                rep = native_replay(scratch, f['replay'], '')
                if rep['failed']:
                    return dict(harness=f['replay'], failed_check='native sampling finder', input_hex=None,
                                replay_test=f['replay'], replayed_natively=True, native_output=rep['tail'],
                                finder_bound=f.get('bound'))
                if ran is not None and 'test result: ok. 1 passed' in rep['tail']:
                    ran.append(dict(name=f['replay'], kind='native', bound=f.get('bound'), covers=covers))
                elif ran is not None:
                    ran.append(dict(name=f['replay'], kind='native', bound=f.get('bound'), covers=False, did_not_run=rep['tail'][-600:]))
                continue    # nothing found: a later finder may match the same function
            r = find_and_replay(scratch, f, violation.get('where'))
            if r:
                return r
            if ran is not None and _FINDER_STATUS.get((scratch, f['name'])) == 'ok':
                ran.append(dict(name=f['name'], kind='kani', bound=f.get('bound', f.get('shape')), covers=covers))
    return None


if __name__ == '__main__':
    print(json.dumps(parse_kani_output(open(sys.argv[1]).read(), sys.argv[2:]), indent=1))
