#!/usr/bin/env python3
"""harmless_sweep.py [--full] [--jobs N] [ids...] — false-alarm test. For every behaviour-preserving change in /verif/harmless/<id>/
(patch.diff + why.txt, written by sub-agents that saw only the property texts): copy /repo to a scratch directory outside /repo
and /verif, apply the patch there, run the quick check of EVERY property whose units / harnesses / Python tools read a touched
file, and record the verdicts in harmless/<id>/result.json. Expected: exit 0 everywhere; exit 2 (undecided: proof text lost its
anchor) is tolerated and listed; exit 1 / a VIOLATION line is a false alarm of the machinery and must be fixed.

Default: Verus and Python obligations only (VERIF_DEV_SKIP_JOBS; one Verus run per unit and tree through VERIF_DEV_UNIT_CACHE).
--full: everything the registered quick command runs (Kani harnesses, native enumerations)."""
import collections, glob, json, os, re, shutil, subprocess, sys, tempfile, time, tomllib
from concurrent.futures import ThreadPoolExecutor
HERE = os.path.dirname(os.path.dirname(os.path.abspath(__file__)))
args = sys.argv[1:]
full = '--full' in args
if full:
    args.remove('--full')
jobs = 4
if '--jobs' in args:
    k = args.index('--jobs'); jobs = int(args[k + 1]); del args[k:k + 2]
only_props = None
if '--props' in args:
    k = args.index('--props'); only_props = set(args[k + 1].split(',')); del args[k:k + 2]
ids = args or sorted(d for d in os.listdir(os.path.join(HERE, 'harmless')) if os.path.isdir(os.path.join(HERE, 'harmless', d)))

cfg = tomllib.load(open(os.path.join(HERE, 'contracts/properties.toml'), 'rb'))
units = {}
for f in glob.glob(os.path.join(HERE, 'contracts/verus/units/*.toml')):
    u = tomllib.load(open(f, 'rb'))
    units[u['name']] = ([x['path'] for x in u.get('file', [])], u.get('include', []))


def unit_files(name, seen=None):
    seen = seen or set()
    if name in seen or name not in units:
        return set()
    seen.add(name)
    fs = set(units[name][0])
    for inc in units[name][1]:
        fs |= unit_files(inc, seen)      # included units are read (by body or by contract) too
    return fs


fmap = collections.defaultdict(set)
pyprops = set()
for pid, c in cfg.items():
    if not (isinstance(c, dict) and re.match(r'C\d\d$', pid)):
        continue
    for u in c.get('units', []):
        for p in unit_files(u):
            fmap[p].add(pid)
    for k in c.get('kani', []) + c.get('native', []):
        for fn in k.get('files', []):
            m = re.search(r'@append-to: (\S+)', open(os.path.join(HERE, 'contracts/kani', fn)).readline())
            if m:
                fmap[m.group(1)].add(pid)
    if c.get('pyvc'):
        pyprops.add(pid)


def props_for(patch):
    touched = re.findall(r'^\+\+\+ b/(\S+)', open(patch).read(), re.M)
    ps = set()
    for t in touched:
        if t.endswith('.py'):
            ps |= pyprops
        ps |= fmap.get(t, set())
    return touched, sorted(ps)


def one(hid):
    d = os.path.join(HERE, 'harmless', hid)
    patch = os.path.join(d, 'patch.diff')
    touched, props = props_for(patch)
    if only_props is not None:
        props = [p for p in props if p in only_props]
    scratch = tempfile.mkdtemp(prefix='harmless-', dir='/var/tmp')
    rows = []
    try:
        subprocess.run(['rsync', '-a', '--exclude', 'target', '--exclude', '.git', '/repo/', scratch + '/repo/'], check=True)
        r = subprocess.run(['patch', '-p1', '-s', '-i', patch], cwd=scratch + '/repo', capture_output=True, text=True)
        if r.returncode != 0:
            return hid, touched, [dict(prop='-', exit=None, note='patch does not apply: ' + r.stdout[:200])]
        env = dict(os.environ, VERIF_REPO=scratch + '/repo', VERIF_EVIDENCE_DIR=scratch + '/evidence')
        if not full:
            env.update(VERIF_DEV_SKIP_JOBS='1', VERIF_DEV_UNIT_CACHE=scratch + '/unitcache')
        for p in props:
            t0 = time.time()
            c = subprocess.run([os.path.join(HERE, 'check'), p], capture_output=True, text=True, env=env, timeout=7200)
            lines = [l for l in c.stdout.splitlines() if l.startswith(('VIOLATION', 'INCONCLUSIVE', 'KNOWN-FINDING'))]
            und = [l.strip() for l in c.stdout.splitlines() if 'undecided' in l or 'lost' in l][:6]
            rows.append(dict(prop=p, exit=c.returncode, wall_s=round(time.time() - t0), lines=[l[:600] for l in lines if not l.startswith('KNOWN')],
                             undecided=[u[:300] for u in und]))
    finally:
        shutil.rmtree(scratch, ignore_errors=True)
    json.dump(dict(id=hid, touched=touched, mode='full' if full else 'verus+python', results=rows), open(os.path.join(d, 'result.json' if not full else 'result_full.json'), 'w'), indent=1)
    return hid, touched, rows


with ThreadPoolExecutor(max_workers=jobs) as ex:
    for hid, touched, rows in ex.map(one, ids):
        bad = [r for r in rows if r['exit'] != 0]
        print(hid, ','.join(touched), 'OK(%d props)' % len(rows) if not bad else ' '.join('%s=exit%s' % (r['prop'], r['exit']) for r in bad), flush=True)
        for r in bad:
            for l in r.get('lines', [])[:3]:
                print('     ', l[:400], flush=True)
