#!/bin/bash
# tools/run_all.sh [tier] — run every registered check once on the current tree (rewrites evidence/*.json); prints one line per check
cd "$(dirname "$0")/.."
tier=${1:-quick}
rc=0
for p in $(python3 -c "import json;print(' '.join(c['property_id'] for c in json.load(open('MANIFEST.json'))['checks']))"); do
  t0=$(date +%s)
  out=$(./check $p --tier $tier 2>&1); code=$?
  echo "$p exit=$code $(( $(date +%s) - t0 ))s :: $(echo "$out" | grep -v '^WARNING' | tail -1)"
  echo "$out" | grep -E "^VIOLATION|^KNOWN-FINDING" | cut -c1-200
  [ $code -ne 0 ] && rc=1
done
exit $rc
