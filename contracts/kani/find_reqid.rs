// @append-to: src/reqid.rs
// helper for the native socket finder: a RequestId holding a chosen value (test-only)
#[cfg(test)]
pub(crate) fn verif_make_reqid(v: i64) -> RequestId {
    let mut r = RequestId::default();
    // works for either an i64 or a narrower representation of the stored id
    r.0 = v as _;
    r
}
