// @append-to: src/reqid.rs
// helper for the native socket finder: a RequestId holding a chosen value (test-only)
#[cfg(test)]
pub(crate) fn verif_make_reqid(v: i64) -> RequestId {
    let mut r = RequestId::default();
    // works for either an i64 or a narrower representation of the stored id
    r.0 = v as _;
    r
}
// Native bounded stand-in for the request-id generator, used only behind a failed / undecided obligation (C03 / C04 / C07 / C10): 20 000
// draws are inside 0..=2^31-1 (what an Integer32 request-id field can carry), the stored value is the returned one, check() accepts
// exactly it, and the draws are not constant.
#[cfg(test)]
mod verif_find_reqid {
    use super::*;
    #[test]
    fn finder_request_id_range() {
        let mut r = RequestId::default();
        let mut distinct = std::collections::HashSet::new();
        for _ in 0..20_000 {
            let v = r.get_next();
            assert!((0..=0x7fff_ffffi64).contains(&v), "request id {} outside 0..=2^31-1", v);
            assert!(r.check(v), "check() refuses the id just generated");
            assert!(!r.check(v + 1) && !r.check(v - 1) && !r.check(v | (1 << 31)) && !r.check(v | (1 << 32)), "check() accepts another value");
            assert_eq!(r.0 as i64, v, "the stored id is not the returned one");
            distinct.insert(v);
        }
        assert!(distinct.len() > 19_000, "request ids repeat: {} distinct of 20000", distinct.len());
    }
}
