// @append-to: src/socket/v3.rs
// Native demonstrations / sampling finder for the v3 session layer (C10 known findings, C13, C04).
#[cfg(test)]
mod verif_find_v3 {
    use super::*;
    use crate::snmp::getresponse::SnmpGetResponse;
    use socket2::{Domain, Type};

    fn sock(engine_id: &[u8], auth_alg: u8, priv_alg: u8) -> SnmpV3ClientSocket {
        let mut auth = AuthKey::new(auth_alg).unwrap();
        auth.as_key_type(auth_alg, b"maplesyrup", engine_id).unwrap();
        let mut pk = PrivKey::new(priv_alg).unwrap();
        if pk.has_priv() {
            let mut pk_auth = AuthKey::new(auth_alg).unwrap();
            pk_auth.as_key_type(priv_alg, b"maplesyrup", engine_id).unwrap();
            pk.as_localized(pk_auth.get_key()).unwrap();
        }
        SnmpV3ClientSocket {
            io: Socket::new(Domain::IPV4, Type::DGRAM, None).unwrap(),
            engine_id: engine_id.to_vec(),
            engine_boots: 0,
            engine_time: 0,
            user_name: "user".into(),
            auth_key: auth,
            priv_key: pk,
            msg_id: crate::reqid::RequestId::default(),
            request_id: crate::reqid::RequestId::default(),
        }
    }
    fn reply<'a>(engine: &'a [u8], msg_id: i64, request_id: i64, flag_auth: bool, mac: &'a [u8]) -> SnmpV3Message<'a> {
        SnmpV3Message {
            msg_id,
            flag_auth,
            flag_priv: false,
            flag_report: false,
            usm: UsmParameters { engine_id: engine, engine_boots: 7, engine_time: 9, user_name: b"user", auth_params: mac, privacy_params: &[] },
            data: MsgData::Plaintext(ScopedPdu {
                engine_id: engine,
                pdu: SnmpPdu::GetResponse(SnmpGetResponse { request_id, error_status: 0, error_index: 0, vars: vec![] }),
            }),
        }
    }
    // C10 known findings: with an authentication key configured, a plaintext noAuth reply with an absent / zero MAC whose
    // user, engine id, msgID and request-id match is DELIVERED (it must be dropped).
    #[test]
    fn demo_c10_forged_reply_accepted() {
        let engine = [0x80u8, 0, 0x1f, 0x88, 4, 1, 2, 3];
        let mut so = sock(&engine, 1, 1); // MD5 + DES configured
        let (mid, rid) = (so.msg_id.get_next(), so.request_id.get_next());
        let zero = [0u8; 12];
        // (a) auth flag cleared, no MAC at all
        assert!(so.unwrap_pdu(reply(&engine, mid, rid, false, &[])).is_none(), "noAuth reply accepted by an authenticated session");
    }
    #[test]
    fn demo_c10_zero_mac_accepted() {
        let engine = [0x80u8, 0, 0x1f, 0x88, 4, 1, 2, 3];
        let mut so = sock(&engine, 1, 0);
        let (mid, rid) = (so.msg_id.get_next(), so.request_id.get_next());
        let zero = [0u8; 12];
        assert!(so.unwrap_pdu(reply(&engine, mid, rid, true, &zero)).is_none(), "reply with an all-zero MAC accepted");
    }
    #[test]
    fn demo_c10_cleartext_accepted_with_privacy() {
        let engine = [0x80u8, 0, 0x1f, 0x88, 4, 1, 2, 3];
        let mut so = sock(&engine, 2, 2); // SHA-1 + AES configured
        let (mid, rid) = (so.msg_id.get_next(), so.request_id.get_next());
        let zero = [0u8; 12];
        assert!(so.unwrap_pdu(reply(&engine, mid, rid, true, &zero)).is_none(), "cleartext reply accepted although privacy is configured");
    }
    // sampling finder for the v3 accept rule and discovery / time sync (C04, C13)
    #[test]
    fn finder_v3_accept_and_sync() {
        let engine = [0x80u8, 0, 0x1f, 0x88, 4, 1, 2, 3];
        let other = [0x80u8, 0, 0x1f, 0x88, 4, 9, 9, 9];
        for given in [true, false] {
            for (me, mm, mr) in [(true, 0i64, 0i64), (false, 0, 0), (true, 1, 0), (true, 0, 1), (true, 1 << 32, 0), (true, 0, 1 << 32), (true, 0, -(1 << 32))] {
                let mut so = sock(if given { &engine } else { &[] }, 0, 0);
                let (mid, rid) = (so.msg_id.get_next(), so.request_id.get_next());
                let e: &[u8] = if me { &engine } else { &other };
                let r = so.unwrap_pdu(reply(e, mid + mm, rid + mr, false, &[])).is_some();
                let expect = (me || !given) && mm == 0 && mr == 0;
                assert_eq!(r, expect, "engine given {} engine match {} msgid delta {} reqid delta {}", given, me, mm, mr);
                if r {
                    assert_eq!((so.engine_boots, so.engine_time), (7, 9), "boots/time not taken from the accepted message");
                    assert_eq!(so.engine_id, e.to_vec(), "engine id after an accepted message");
                } else {
                    assert_eq!((so.engine_boots, so.engine_time), (0, 0), "state changed by a skipped message");
                    assert_eq!(so.engine_id, if given { engine.to_vec() } else { vec![] });
                }
            }
        }
    }
}
