// @append-to: src/ber/objectid.rs
// Bounded stand-ins for the text <-> BER conversions of SnmpOid (property C08). Verus has no `str` reasoning, so there is
// no deductive contract here: these are Kani harnesses over bounded families, labelled bounded and never counted as proved.
#[cfg(any(kani, test))]
mod verif_oid_text {
    use super::*;

    // X.690 8.19 reference: minimal base-128 of one sub-identifier
    fn ref_arc(v: u32, out: &mut [u8; 5]) -> usize {
        let mut groups = 1;
        let mut t = v >> 7;
        while t > 0 {
            groups += 1;
            t >>= 7;
        }
        let mut k = 0;
        while k < groups {
            let shift = 7 * (groups - 1 - k);
            let g = ((v >> shift) & 0x7f) as u8;
            out[k] = if k + 1 < groups { g | 0x80 } else { g };
            k += 1;
        }
        groups
    }

    // "1.3.<N>" for every u32 N: accepted, and encoded as 2b ++ base128(N) — covers every arc-width boundary
    pub fn check_third_arc(n: u32) {
        // render N in decimal without core::fmt
        let mut digits = [0u8; 10];
        let mut len = 0;
        let mut t = n;
        loop {
            digits[len] = b'0' + (t % 10) as u8;
            len += 1;
            t /= 10;
            if t == 0 {
                break;
            }
        }
        let mut s = [0u8; 14];
        s[0] = b'1';
        s[1] = b'.';
        s[2] = b'3';
        s[3] = b'.';
        let mut k = 0;
        while k < len {
            s[4 + k] = digits[len - 1 - k];
            k += 1;
        }
        let text = core::str::from_utf8(&s[..4 + len]).unwrap();
        let oid = SnmpOid::try_from(text).unwrap();
        let mut exp = [0u8; 5];
        let el = ref_arc(n, &mut exp);
        assert!(oid.0.len() == 1 + el);
        assert!(oid.0[0] == 0x2b);
        let mut k = 0;
        while k < el {
            assert!(oid.0[1 + k] == exp[k]);
            k += 1;
        }
    }

    #[cfg(kani)]
    #[kani::proof]
    #[kani::unwind(16)]
    fn bounded_oid_third_arc() {
        let n: u32 = kani::any();
        check_third_arc(n);
        kani::cover!(n == 0xffff_ffff);
    }

    #[test]
    fn replay_oid_third_arc() {
        let hex = std::env::var("VERIF_REPLAY_HEX").unwrap_or_default();
        let mut b = [0u8; 4];
        for k in 0..4.min(hex.len() / 2) {
            b[k] = u8::from_str_radix(&hex[2 * k..2 * k + 2], 16).unwrap();
        }
        check_third_arc(u32::from_le_bytes(b));
    }
}
