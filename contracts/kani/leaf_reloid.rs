// @append-to: src/ber/relative_oid.rs
// Bounded stand-ins for the iterator-based helpers of SnmpRelativeOid (<= 8 octets). NOT counted as proved.
#[cfg(kani)]
mod verif_leaf_reloid {
    use super::*;
    #[kani::proof]
    #[kani::unwind(10)]
    fn bounded_rel_subelements() {
        let a: [u8; 8] = kani::any();
        let len: usize = kani::any();
        kani::assume(len <= 8);
        let r = SnmpRelativeOid::subelements(&a[..len]);
        assert!(r <= len);
        let mut cnt = 0;
        let mut k = 0;
        while k < len {
            if a[k] < 128 {
                cnt += 1;
            }
            k += 1;
        }
        assert!(r == cnt);
        kani::cover!(r == 3);
    }
    #[kani::proof]
    #[kani::unwind(10)]
    fn bounded_rel_find_subelement() {
        let a: [u8; 8] = kani::any();
        let len: usize = kani::any();
        kani::assume(len <= 8);
        let n: usize = kani::any();
        if let Some(off) = SnmpRelativeOid::find_subelement(&a[..len], n) {
            assert!(off < len);
        }
        kani::cover!(n == 2);
    }
}
