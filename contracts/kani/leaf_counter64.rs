// @append-to: src/ber/counter64.rs
// Bounded stand-in for the reduce-based unsigned decoder (contents of 0..9 octets). NOT counted as proved.
#[cfg(kani)]
mod verif_leaf_counter64 {
    use super::*;
    use crate::ber::BerClass;
    #[kani::proof]
    #[kani::unwind(11)]
    fn bounded_counter64_decode() {
        let a: [u8; 9] = kani::any();
        let len: usize = kani::any();
        kani::assume(len <= 9);
        let h = BerHeader { class: BerClass::Application, constructed: false, tag: TAG_APP_COUNTER64, length: len };
        let v = SnmpCounter64::decode(&a, &h).unwrap().0;
        // reference: be_u(content) mod 2^bits
        let mut acc: u128 = 0;
        let mut k = 0;
        while k < len {
            acc = (acc * 256 + a[k] as u128) % (1u128 << (core::mem::size_of::<u64>() * 8));
            k += 1;
        }
        assert!(v as u128 == acc);
        kani::cover!(len == 5 && a[0] == 0 && a[1] == 0xff);
    }
}
