// @append-to: src/buf/buffer.rs
// BOUNDED native enumeration for Buffer::push_tagged / push_tag_len / push near the capacity limit. The Kani harnesses of
// push_tagged (thorough tier) are per data-length class {0, 5, 12} — all short-form headers; the long-form headers (data of
// 128..255 and >= 256 octets: a community, user name or engine id of that size) meet the end of the buffer only here.
// Every data length 0..=4080 x free space in {len-1, len, len+1, .., len+8}: Ok iff header + data fit, on Ok the buffer
// reads header ++ data ++ old contents, on Err it is OutOfBuffer without a panic and the old contents are still there.
// Labelled bounded (free space sampled in a band around the limit), never counted as proved.
#[cfg(test)]
mod verif_exh_buffer {
    use super::*;
    fn hdr(tag: u8, l: usize) -> Vec<u8> {
        if l < 128 { vec![tag, l as u8] } else if l < 256 { vec![tag, 0x81, l as u8] } else { vec![tag, 0x82, (l >> 8) as u8, l as u8] }
    }
    fn filled(free: usize) -> (Buffer, Vec<u8>) {
        let used = MAX_SIZE - free;
        let old: Vec<u8> = (0..used).map(|k| (k * 13 + 5) as u8).collect();
        let mut b = Buffer::default();
        assert!(b.push(&old).is_ok());
        assert_eq!(b.free(), free);
        (b, old)
    }
    #[test]
    fn exhaustive_buffer_push_tagged_boundaries() {
        for l in 0..=MAX_SIZE {
            let data: Vec<u8> = (0..l).map(|k| (k * 7 + 3) as u8).collect();
            let h = hdr(4, l);
            let mut frees: Vec<usize> = (0..=8usize).map(|d| l + d).collect();
            if l > 0 { frees.push(l - 1); }
            for free in frees {
                if free > MAX_SIZE { continue; }
                let (mut b, old) = filled(free);
                let r = std::panic::catch_unwind(std::panic::AssertUnwindSafe(|| {
                    let ok = b.push_tagged(4, &data).is_ok();
                    (ok, b.data().to_vec())
                }));
                let (ok, after) = match r {
                    Ok(x) => x,
                    Err(_) => panic!("push_tagged panicked: data length {} free space {}", l, free),
                };
                let fits = l + h.len() <= free;
                assert_eq!(ok, fits, "push_tagged: data length {} free space {}: Ok must mean header + data fit", l, free);
                if ok {
                    let mut want = h.clone(); want.extend_from_slice(&data); want.extend_from_slice(&old);
                    assert!(after == want, "push_tagged: data length {} free space {}: buffer is not header ++ data ++ old", l, free);
                } else {
                    let mut partial = data.clone(); partial.extend_from_slice(&old);
                    assert!(after == old || after == partial, "push_tagged: data length {} free space {}: old contents damaged on Err", l, free);
                }
            }
        }
    }
    #[test]
    fn exhaustive_buffer_push_tag_len_boundaries() {
        for v in 0..=0xffffusize {
            let h = hdr(0x30, v);
            for free in 0..=5usize {
                let (mut b, old) = filled(free);
                let r = std::panic::catch_unwind(std::panic::AssertUnwindSafe(|| {
                    let ok = b.push_tag_len(0x30, v).is_ok();
                    (ok, b.data().to_vec())
                }));
                let (ok, after) = match r {
                    Ok(x) => x,
                    Err(_) => panic!("push_tag_len panicked: length {} free space {}", v, free),
                };
                assert_eq!(ok, h.len() <= free, "push_tag_len: length {} free space {}", v, free);
                if ok {
                    let mut want = h.clone(); want.extend_from_slice(&old);
                    assert!(after == want, "push_tag_len: length {} free space {}: wrong header octets", v, free);
                } else {
                    assert!(after == old, "push_tag_len: length {} free space {}: buffer changed on Err", v, free);
                }
            }
        }
    }
}
