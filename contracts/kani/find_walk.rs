// @append-to: src/snmp/op/getiter.rs
// Native sampling finder for the walk bookkeeping as the CALLER sees it (C06: the dotted OIDs a walk yields are strictly
// increasing, so no entry is reported twice). Agent replies are BER-encoded OBJECT IDENTIFIER elements, decoded with the
// crate's decoder, offered to GetIter::set_next_oid, and the accepted ones rendered with the crate's BER -> text conversion;
// the texts are compared as arc vectors by an independent parser.
#[cfg(test)]
mod verif_find_walk {
    use super::*;
    use crate::ber::BerDecoder;
    fn arcs(text: &str) -> Vec<u64> {
        text.split('.').map(|p| p.parse::<u64>().unwrap()).collect()
    }
    #[test]
    fn finder_walk_text_strictly_increasing() {
        let base: Vec<u8> = vec![0x2b, 6, 1, 2];
        // replies an agent may send: well-formed increasing ones, repeats, padded and DANGLING sub-identifiers (last octet with the
        // continuation bit set), shorter / longer encodings
        let mut replies: Vec<Vec<u8>> = Vec::new();
        for t in [
            &[1u8][..], &[1, 0], &[1, 0x81], &[1, 0x82], &[1, 0x82, 0x80], &[1, 1], &[1, 1], &[0x80, 1, 1], &[1, 0x81, 0x00], &[1, 0x81, 0x00, 0x85],
            &[2], &[2, 0x81], &[2, 0x82], &[2, 0x83], &[2, 0xff], &[2, 0xff, 0x81], &[3, 0x80], &[3, 0x80, 0x80], &[3, 0x80, 0x01], &[3, 0x90, 0x80, 0x80],
            &[4, 0x7f], &[4, 0x81, 0x00], &[4, 0x81], &[5],
        ] {
            let mut c = base.clone();
            c.extend_from_slice(t);
            replies.push(c);
        }
        let mut it = GetIter { start_oid: base.clone(), next_oid: base.clone(), max_repetitions: 0 };
        let mut yielded: Vec<String> = Vec::new();
        for c in replies.iter() {
            let mut tlv = vec![0x06u8, c.len() as u8];
            tlv.extend_from_slice(c);
            let oid = match SnmpOid::from_ber(&tlv) {
                Ok((_, o)) => o,
                Err(_) => continue, // refused by the decoder: never reaches the walk
            };
            if it.set_next_oid(&oid) {
                let text = String::try_from(&oid).expect("an accepted oid must be printable");
                if let Some(prev) = yielded.last() {
                    assert!(arcs(prev) < arcs(&text), "walk yields {:?} after {:?} (contents {:02x?}): not strictly increasing", text, prev, c);
                }
                yielded.push(text);
            }
        }
        assert!(yielded.len() >= 5, "the well-formed increasing replies must be accepted: {:?}", yielded);
    }
}
