// @append-to: src/privacy/mod.rs
// Native sampling finder for the privacy layer (used only behind a failed / undecided obligation of C11 / C14 / C17 in
// src/privacy or when its unit cannot be verified). encrypt() output is decrypted with the block-cipher crates used
// DIRECTLY (RFC 3414 §8.1.1 / RFC 3826 §3.1 key, IV and salt rules written out here), decrypt() is fed ciphertext made
// the same way; sessions are reused across messages of different length so that stale buffer contents would show.
#[cfg(test)]
mod verif_find_priv {
    use super::*;
    use crate::ber::SnmpOid;
    use crate::snmp::get::SnmpGet;
    use crate::snmp::pdu::SnmpPdu;
    use ::cipher::{block_padding::NoPadding, AsyncStreamCipher, BlockDecryptMut, BlockEncryptMut, KeyIvInit};

    const KUL: [u8; 20] = [0x52, 0x6f, 0x5e, 0xed, 0x9f, 0xcc, 0xe2, 0x6f, 0x89, 0x64, 0xc2, 0x93, 0x07, 0x87, 0xd8, 0x2b, 0x11, 0x22, 0x33, 0x44];

    fn scoped(n_oids: usize, rid: i64) -> (ScopedPdu<'static>, Vec<u8>) {
        // independent forward encoding of the same scoped PDU
        fn tlv(tag: u8, c: &[u8]) -> Vec<u8> {
            let mut o = vec![tag];
            if c.len() < 128 {
                o.push(c.len() as u8);
            } else if c.len() < 256 {
                o.extend_from_slice(&[0x81, c.len() as u8]);
            } else {
                o.extend_from_slice(&[0x82, (c.len() >> 8) as u8, c.len() as u8]);
            }
            o.extend_from_slice(c);
            o
        }
        let mut vars = Vec::new();
        let mut vbs = Vec::new();
        for k in 0..n_oids {
            let oid = vec![0x2bu8, 6, 1, 2, 1, 2, 2, 1, (k % 100) as u8 + 1, (k / 100) as u8];
            let mut vb = tlv(6, &oid);
            vb.extend_from_slice(&[5, 0]);
            vbs.extend_from_slice(&tlv(0x30, &vb));
            vars.push(SnmpOid::from(oid));
        }
        let rid_octets: Vec<u8> = if rid < 128 { vec![rid as u8] } else { vec![(rid >> 8) as u8, rid as u8] };
        let mut body = tlv(2, &rid_octets);
        body.extend_from_slice(&[2, 1, 0, 2, 1, 0]);
        body.extend_from_slice(&tlv(0x30, &vbs));
        let mut inner = tlv(4, b"ctx-engine");
        inner.extend_from_slice(&[4, 0]);
        inner.extend_from_slice(&tlv(0xa0, &body));
        (ScopedPdu { engine_id: b"ctx-engine", pdu: SnmpPdu::GetRequest(SnmpGet { request_id: rid, vars }) }, tlv(0x30, &inner))
    }
    fn des_iv(salt: &[u8]) -> [u8; 8] {
        let mut iv = [0u8; 8];
        for k in 0..8 {
            iv[k] = salt[k] ^ KUL[8 + k];
        }
        iv
    }
    // C01: msgPrivacyParameters of any length (the sender chooses it) never makes decrypt panic
    #[test]
    fn finder_salt_lengths_never_panic() {
        for alg in [1u8, 2] {
            let mut key = PrivKey::new(alg).unwrap();
            key.as_localized(&KUL).unwrap();
            for n in 0..=17usize {
                let salt = vec![0x5au8; n];
                for data_len in [0usize, 8, 16, 24, 40] {
                    let data = vec![0xc3u8; data_len];
                    let usm = UsmParameters { engine_id: b"e", engine_boots: 1, engine_time: 2, user_name: b"u", auth_params: &[], privacy_params: &salt };
                    let r = std::panic::catch_unwind(std::panic::AssertUnwindSafe(|| key.decrypt(&data, &usm).is_ok()));
                    assert!(r.is_ok(), "alg {}: decrypt panics for a {}-octet salt and {} octets of msgData", alg, n, data_len);
                }
            }
        }
    }
    #[test]
    fn finder_privacy() {
        for alg in [1u8, 2] {
            let block = if alg == 1 { 8 } else { 16 };
            let mut key = PrivKey::new(alg).unwrap();
            key.as_localized(&KUL).unwrap();
            let mut salts: Vec<Vec<u8>> = Vec::new();
            // lengths chosen to hit every remainder modulo the block size, long then short (stale tails)
            for (round, n) in [9usize, 1, 0, 3, 2, 7, 5, 4, 6, 8, 10, 1, 0, 20, 0].iter().enumerate() {
                let (pdu, wire) = scoped(*n, 300 + round as i64);
                let boots = 7u32 + round as u32;
                let time = 0x0102_0304u32;
                let (data, salt) = key.encrypt(&pdu, boots, time).unwrap();
                let (data, salt) = (data.to_vec(), salt.to_vec());
                assert_eq!(salt.len(), 8, "msgPrivacyParameters must be 8 octets");
                assert!(!salts.contains(&salt), "alg {}: salt {:02x?} repeats", alg, salt);
                if let Some(prev) = salts.last() {
                    // the counter part advances by one
                    let (a, b) = if alg == 1 {
                        (u32::from_be_bytes(prev[4..8].try_into().unwrap()) as u64, u32::from_be_bytes(salt[4..8].try_into().unwrap()) as u64)
                    } else {
                        (u64::from_be_bytes(prev[..].try_into().unwrap()), u64::from_be_bytes(salt[..].try_into().unwrap()))
                    };
                    let modulus_ok = if alg == 1 { b == (a + 1) % (1u64 << 32) } else { b == a.wrapping_add(1) };
                    assert!(modulus_ok, "alg {}: salt counter {} -> {}", alg, a, b);
                }
                if alg == 1 {
                    assert_eq!(&salt[..4], &boots.to_be_bytes(), "DES salt starts with engine boots");
                }
                salts.push(salt.clone());
                // independent decryption
                let mut plain = data.clone();
                if alg == 1 {
                    assert_eq!(data.len() % 8, 0);
                    cbc::Decryptor::<::des::Des>::new_from_slices(&KUL[..8], &des_iv(&salt)).unwrap()
                        .decrypt_padded_mut::<NoPadding>(&mut plain).unwrap();
                } else {
                    let mut iv = Vec::new();
                    iv.extend_from_slice(&boots.to_be_bytes());
                    iv.extend_from_slice(&time.to_be_bytes());
                    iv.extend_from_slice(&salt);
                    cfb_mode::Decryptor::<::aes::Aes128>::new_from_slices(&KUL[..16], &iv).unwrap().decrypt(&mut plain);
                }
                assert!(plain.len() >= wire.len() && plain.len() - wire.len() < block, "alg {} n {}: {} plaintext octets for a {}-octet scoped PDU", alg, n, plain.len(), wire.len());
                assert_eq!(&plain[..wire.len()], &wire[..], "alg {} n {}: msgData does not decrypt to the scoped PDU", alg, n);
                assert!(plain[wire.len()..].iter().all(|&x| x == 0), "alg {} n {}: padding {:02x?} is not the encoder's zero padding", alg, n, &plain[wire.len()..]);
                // the agent's answer, encrypted the same way with its own salt, is decrypted to its exact content
                let (_, rwire) = scoped(*n + 1, 900 + round as i64);
                let mut padded = rwire.clone();
                while padded.len() % block != 0 {
                    padded.push(0);
                }
                let asalt = [0xa0u8, 1, 2, 3, 4, 5, 6, round as u8];
                let (rb, rt) = (0x0001_0002i64 + round as i64, 0x0304_0506i64);
                let mut ct = padded.clone();
                if alg == 1 {
                    let l = ct.len();
                    cbc::Encryptor::<::des::Des>::new_from_slices(&KUL[..8], &des_iv(&asalt)).unwrap()
                        .encrypt_padded_mut::<NoPadding>(&mut ct, l).unwrap();
                } else {
                    let mut iv = Vec::new();
                    iv.extend_from_slice(&(rb as u32).to_be_bytes());
                    iv.extend_from_slice(&(rt as u32).to_be_bytes());
                    iv.extend_from_slice(&asalt);
                    cfb_mode::Encryptor::<::aes::Aes128>::new_from_slices(&KUL[..16], &iv).unwrap().encrypt(&mut ct);
                }
                let usm = UsmParameters { engine_id: b"e", engine_boots: rb, engine_time: rt, user_name: b"u", auth_params: &[], privacy_params: &asalt };
                let sp = key.decrypt(&ct, &usm).unwrap_or_else(|_| panic!("alg {} n {}: a reply encrypted per RFC was not decrypted", alg, n));
                assert_eq!(sp.engine_id, b"ctx-engine");
                match sp.pdu {
                    SnmpPdu::GetRequest(g) => {
                        assert_eq!(g.request_id, 900 + round as i64);
                        assert_eq!(g.vars.len(), *n + 1);
                    }
                    _ => panic!("PDU type"),
                }
            }
        }
    }
}
