// @append-to: src/auth/digest.rs
// Kani harnesses for DigestAuth::sign and ::placeholder (property C09), on the REAL generic code instantiated with a
// recording digest: every octet fed to each hasher instance is logged, finalize() returns an ARBITRARY (symbolic) digest.
// The harness then checks, for a symbolic key, message (12..=MSG octets) and offset, that
//   inner hasher was fed   (K xor 0x36) || 0x36 x (64-KS) || message-with-zeroed-field-as-given
//   outer hasher was fed   (K xor 0x5c) || 0x5c x (64-KS) || inner_digest[..KS]
//   message[offset..offset+12] := outer_digest[..12], every other octet unchanged         (RFC 2104, RFC 3414 6.3.1 / 7.3.1)
// The hash function itself is abstract here (trusted: RustCrypto MD5 / SHA-1). Bounded in the message length only.
#[cfg(kani)]
mod verif_auth_sign {
    use super::*;
    use digest::{FixedOutput, HashMarker, Output, OutputSizeUser, Update};

    const MSG: usize = 24;
    const CAP: usize = 64 + MSG + 4;
    static mut NEXT_ID: usize = 0;
    static mut LOG: [[u8; CAP]; 2] = [[0; CAP]; 2];
    static mut LEN: [usize; 2] = [0; 2];
    static mut OUT: [[u8; 20]; 2] = [[0; 20]; 2];

    macro_rules! recorder {
        ($name:ident, $size:ty, $n:expr) => {
            pub struct $name {
                id: usize,
            }
            impl Default for $name {
                fn default() -> Self {
                    unsafe {
                        let id = NEXT_ID;
                        NEXT_ID += 1;
                        assert!(id < 2);
                        $name { id }
                    }
                }
            }
            impl HashMarker for $name {}
            impl OutputSizeUser for $name {
                type OutputSize = $size;
            }
            impl Update for $name {
                fn update(&mut self, data: &[u8]) {
                    unsafe {
                        let mut k = 0;
                        while k < data.len() {
                            assert!(LEN[self.id] < CAP);
                            LOG[self.id][LEN[self.id]] = data[k];
                            LEN[self.id] += 1;
                            k += 1;
                        }
                    }
                }
            }
            impl FixedOutput for $name {
                fn finalize_into(self, out: &mut Output<Self>) {
                    unsafe {
                        let d: [u8; 20] = kani::any();
                        OUT[self.id] = d;
                        let mut k = 0;
                        while k < $n {
                            out[k] = d[k];
                            k += 1;
                        }
                    }
                }
            }
        };
    }
    recorder!(Rec16, digest::consts::U16, 16);
    recorder!(Rec20, digest::consts::U20, 20);

    // install a key through the public key-installation paths (localized key as is, or master key + engine id), then
    // forget what the recorder saw so far
    fn install<D: Digest, const KS: usize>(auth: &mut DigestAuth<D, KS, 12>) {
        let key: [u8; KS] = kani::any();
        if kani::any() {
            auth.as_localized(&key);
        } else {
            let engine: [u8; 5] = kani::any();
            auth.as_master(&key, &engine);
        }
        unsafe {
            NEXT_ID = 0;
            LEN = [0; 2];
        }
    }

    fn check_sign<D: Digest, const KS: usize>(auth: &DigestAuth<D, KS, 12>) {
        let mut key = [0u8; KS];
        key.copy_from_slice(auth.get_key());
        let mut data: [u8; MSG] = kani::any();
        let len: usize = kani::any();
        kani::assume(12 <= len && len <= MSG);
        let offset: usize = kani::any();
        kani::assume(offset <= len - 12);
        let before = data;
        auth.sign(&mut data[..len], offset).unwrap();
        unsafe {
            assert!(NEXT_ID == 2);
            // inner
            assert!(LEN[0] == 64 + len);
            // outer
            assert!(LEN[1] == 64 + KS);
            let k: usize = kani::any();
            if k < 64 {
                let (ki, ko) = if k < KS { (key[k] ^ 0x36, key[k] ^ 0x5c) } else { (0x36, 0x5c) };
                assert!(LOG[0][k] == ki);
                assert!(LOG[1][k] == ko);
            }
            let m: usize = kani::any();
            if m < len {
                assert!(LOG[0][64 + m] == before[m]);
            }
            let j: usize = kani::any();
            if j < KS {
                assert!(LOG[1][64 + j] == OUT[0][j]);
            }
            let p: usize = kani::any();
            if p < MSG {
                if p >= offset && p < offset + 12 {
                    assert!(data[p] == OUT[1][p - offset]);
                } else {
                    assert!(data[p] == before[p]);
                }
            }
        }
        kani::cover!(offset == 5 && len == MSG);
    }

    #[kani::proof]
    #[kani::unwind(100)]
    fn bounded_sign_md5() {
        let mut auth = DigestAuth::<Rec16, 16, 12>::default();
        install(&mut auth);
        check_sign(&auth);
    }
    #[kani::proof]
    #[kani::unwind(100)]
    fn bounded_sign_sha1() {
        let mut auth = DigestAuth::<Rec20, 20, 12>::default();
        install(&mut auth);
        check_sign(&auth);
    }
    // placeholder(): SS zero octets (complete: no loops, no symbolic sizes)
    #[kani::proof]
    fn proof_placeholder() {
        let a = DigestAuth::<Rec16, 16, 12>::default();
        let p = a.placeholder();
        assert!(p.len() == 12);
        let k: usize = kani::any();
        if k < 12 {
            assert!(p[k] == 0);
        }
        let b = DigestAuth::<Rec20, 20, 12>::default();
        let q = b.placeholder();
        assert!(q.len() == 12);
        if k < 12 {
            assert!(q[k] == 0);
        }
        assert!(a.has_auth() && b.has_auth());
    }
}
