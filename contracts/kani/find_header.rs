// @append-to: src/ber/header.rs
// Counterexample finder / native replay for BerHeader::from_ber (bounded: inputs of 0..11 octets — long enough
// for a tag, 0x89 and nine length octets). The executable form of the contract: total, and the result agrees
// with an independent X.690 reference reader that computes the length in u128.
#[cfg(any(kani, test))]
mod verif_find_header {
    use super::*;
    // (header length, declared content length, tag number mod 256)
    fn ref_header(i: &[u8]) -> Option<(usize, u128, u8)> {
        if i.len() < 2 {
            return None;
        }
        let mut k = 1usize;
        let mut tag: u8 = i[0] & 0x1f;
        if tag == 0x1f {
            tag = 0;
            loop {
                if k >= i.len() {
                    return None;
                }
                let t = i[k];
                k += 1;
                tag = (tag << 7) | (t & 0x7f);
                if t < 128 {
                    break;
                }
            }
        }
        if k >= i.len() {
            return None;
        }
        let n = i[k];
        k += 1;
        let mut len: u128 = 0;
        if n < 128 {
            len = n as u128;
        } else {
            let cnt = (n & 0x7f) as usize;
            if k + cnt > i.len() || cnt > 15 {
                return None;
            }
            let mut j = 0;
            while j < cnt {
                len = (len << 8) | (i[k + j] as u128);
                j += 1;
            }
            k += cnt;
        }
        if (k as u128) + len > (i.len() as u128) {
            return None;
        }
        Some((k, len, tag))
    }
    pub fn check_from_ber(i: &[u8]) {
        match (BerHeader::from_ber(i), ref_header(i)) {
            (Ok((tail, h)), Some((hlen, len, tag))) => {
                assert!(h.length as u128 == len);
                assert!(tail.len() == i.len() - hlen);
                assert!(h.tag == tag);
            }
            (Ok(_), None) => panic!("accepted a header X.690 does not allow for this input"),
            (Err(_), Some(_)) => panic!("refused a well-formed header"),
            (Err(_), None) => {}
        }
    }
    #[cfg(kani)]
    #[kani::proof]
    #[kani::unwind(13)]
    fn finder_from_ber() {
        let a: [u8; 11] = kani::any();
        let n: usize = kani::any();
        kani::assume(n <= 11);
        check_from_ber(&a[..n]);
    }
    #[test]
    fn replay_from_ber() {
        let hex = std::env::var("VERIF_REPLAY_HEX").unwrap_or_default();
        let bytes: Vec<u8> = (0..hex.len() / 2)
            .map(|k| u8::from_str_radix(&hex[2 * k..2 * k + 2], 16).unwrap())
            .collect();
        check_from_ber(&bytes);
    }
}
