// @append-to: src/ber/header.rs
// Counterexample finder / native replay for BerHeader::from_ber (bounded: inputs of 0..6 octets).
// The executable form of the contract: total, and the content fits the returned tail.
#[cfg(any(kani, test))]
mod verif_find_header {
    use super::*;
    pub fn check_from_ber(i: &[u8]) {
        if let Ok((tail, h)) = BerHeader::from_ber(i) {
            assert!(tail.len() >= h.length);
            assert!(tail.len() < i.len());
        }
    }
    #[cfg(kani)]
    #[kani::proof]
    #[kani::unwind(8)]
    fn finder_from_ber() {
        let a: [u8; 6] = kani::any();
        let n: usize = kani::any();
        kani::assume(n <= 6);
        check_from_ber(&a[..n]);
    }
    #[test]
    fn replay_from_ber() {
        let hex = std::env::var("VERIF_REPLAY_HEX").unwrap_or_default();
        let bytes: Vec<u8> = (0..hex.len() / 2)
            .map(|k| u8::from_str_radix(&hex[2 * k..2 * k + 2], 16).unwrap())
            .collect();
        check_from_ber(&bytes);
    }
}
