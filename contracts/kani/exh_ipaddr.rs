// @append-to: src/ber/ipaddress.rs
// BOUNDED native enumeration for `impl From<&SnmpIpAddress> for String` (format machinery, outside Verus): every octet
// value at every position (the other three octets taken from 4 patterns: 4 x 4 x 256 addresses) against
// std::net::Ipv4Addr's Display. Labelled bounded.
#[cfg(test)]
mod verif_exh_ipaddr {
    use super::*;
    #[test]
    fn exhaustive_ipaddress_text() {
        let fill = [[0u8, 0, 0, 0], [255, 255, 255, 255], [10, 100, 200, 9], [192, 168, 1, 99]];
        for f in fill.iter() {
            for pos in 0..4 {
                for v in 0..=255u8 {
                    let mut a = *f;
                    a[pos] = v;
                    let ip = SnmpIpAddress(a[0], a[1], a[2], a[3]);
                    let got: String = (&ip).into();
                    assert_eq!(got, std::net::Ipv4Addr::new(a[0], a[1], a[2], a[3]).to_string(), "address {:?}", a);
                }
            }
        }
    }
}
