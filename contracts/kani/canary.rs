// @append-to: src/reqid.rs
// Guard: this harness must FAIL; if Kani reports it successful the back end is not checking.
#[cfg(kani)]
mod verif_canary {
    #[kani::proof]
    fn verif_canary_must_fail() {
        let x: u8 = kani::any();
        assert!(x != 77);
    }
}
