// @append-to: src/ber/objectid.rs
// Native sampling finder for OID decode and the BER -> dotted text conversion (used only behind a failed / undecided obligation of
// C02 / C08 on SnmpOid::decode and String::try_from(&SnmpOid)). Contents octets are built by an independent base-128 encoder from
// arc lists and handed over as OBJECT IDENTIFIER elements through the crate's decoder, which must take every one of them verbatim.
#[cfg(test)]
mod verif_find_oidprint {
    use super::*;
    fn enc_arc(v: u64, out: &mut Vec<u8>) {
        let mut groups = vec![(v & 0x7f) as u8];
        let mut t = v >> 7;
        while t > 0 {
            groups.push((t & 0x7f) as u8 | 0x80);
            t >>= 7;
        }
        groups.reverse();
        out.extend_from_slice(&groups);
    }
    fn contents(arcs: &[u64]) -> Vec<u8> {
        let mut out = Vec::new();
        enc_arc(arcs[0] * 40 + arcs[1], &mut out);
        for &a in &arcs[2..] {
            enc_arc(a, &mut out);
        }
        out
    }
    // the OID as it arrives: an OBJECT IDENTIFIER element through the crate's decoder (contents kept verbatim, nothing refused)
    fn decoded(c: &[u8]) -> SnmpOid<'static> {
        let mut tlv = vec![0x06u8];
        if c.len() < 128 {
            tlv.push(c.len() as u8);
        } else {
            tlv.extend_from_slice(&[0x81, c.len() as u8]);
        }
        tlv.extend_from_slice(c);
        let (rest, oid) = SnmpOid::from_ber(&tlv).unwrap_or_else(|_| panic!("well-formed OID contents {:02x?} refused by the decoder", c));
        assert!(rest.is_empty(), "octets left after an OID element that fills its input");
        assert_eq!(oid.0.as_ref(), c, "decoded OID contents differ from the contents octets");
        SnmpOid::from(oid.0.to_vec())
    }
    fn text(arcs: &[u64]) -> String {
        arcs.iter().map(|a| a.to_string()).collect::<Vec<_>>().join(".")
    }
    #[test]
    fn finder_oid_print() {
        let mut vals: Vec<u64> = vec![0, 1, 39, 40, 127, 128, 129, 255, 256, 16383, 16384, 2097151, 2097152, 268435455, 268435456,
            0x7fff_ffff, 0x8000_0000, 0xffff_fffe, 0xffff_ffff];
        vals.extend((7..32).map(|k| 1u64 << k));
        vals.extend((7..32).map(|k| (1u64 << k) - 1));
        // every first / second arc the text side accepts, then arcs at every base-128 width boundary
        for x in 0..3u64 {
            for y in 0..40u64 {
                let arcs = [x, y, 6, 1];
                let c = contents(&arcs);
                assert_eq!(String::try_from(&decoded(&c)).ok(), Some(text(&arcs)), "contents {:02x?}", c);
            }
        }
        for &v in vals.iter() {
            for &w in [0u64, 5, 300, 0xffff_ffff].iter() {
                let arcs = [1, 3, 6, v, w, 1];
                let c = contents(&arcs);
                assert_eq!(String::try_from(&decoded(&c)).ok(), Some(text(&arcs)), "contents {:02x?}", c);
            }
        }
        // X.690 8.19.4: under joint-iso-itu-t(2) the second arc is not limited to 39, the first sub-identifier may take
        // several octets
        for y in [40u64, 47, 48, 100, 999, 16000, 0xffff_ff00] {
            let arcs = [2, y, 3];
            let c = contents(&arcs);
            assert_eq!(String::try_from(&decoded(&c)).ok(), Some(text(&arcs)), "contents {:02x?}", c);
        }
        // nothing to print
        assert!(String::try_from(&SnmpOid::from(Vec::new())).is_err());
    }
}
