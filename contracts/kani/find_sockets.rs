// @append-to: src/socket/v2c.rs
// Native sampling finder for the accept/skip decision of the community-based sockets (used only behind a failed or
// undecided obligation of C04 / C03). Walks a stated family of (stored id, wire id, community) combinations on the real
// code and compares with the property's rule: delivered iff community equal and request-id equal (Reports exempt).
#[cfg(test)]
mod verif_find_sockets {
    use super::*;
    use crate::ber::SnmpOid;
    use crate::snmp::get::SnmpGet;
    use crate::snmp::getresponse::SnmpGetResponse;
    use crate::snmp::msg::SnmpV2cMessage;
    use socket2::{Domain, Type};

    fn sock(community: &str) -> SnmpV2cClientSocket {
        SnmpV2cClientSocket {
            io: Socket::new(Domain::IPV4, Type::DGRAM, None).unwrap(),
            community: community.into(),
            request_id: RequestId::default(),
        }
    }
    #[test]
    fn finder_v2c_accept_rule() {
        let stored: [i64; 5] = [0, 1, 0x7fff_ffff, 0x1234_5678, 0x5967_8a47];
        for &s in stored.iter() {
            let deltas: [i64; 12] = [0, 1, -1, 1 << 32, -(1 << 32), 1 << 31, 1 << 33, 1 << 40, 3 << 32, 256, 65536, i64::MIN];
            for &d in deltas.iter() {
                let w = s.wrapping_add(d);
                for comm in ["public", "publi", "public2", ""].iter() {
                    let mut so = sock("public");
                    // install the outstanding id through the only writer
                    loop {
                        // RequestId is random: emulate "the most recently sent request had id s" by encoding a request and
                        // reading the id back is not possible here, so set it through a reply-matching trick below
                        break;
                    }
                    // SAFETY of the experiment: request_id is a private field visible in this module's parent
                    so.request_id = make_reqid(s);
                    let msg = SnmpV2cMessage {
                        community: comm.as_bytes(),
                        pdu: SnmpPdu::GetResponse(SnmpGetResponse { request_id: w, error_status: 0, error_index: 0, vars: vec![] }),
                    };
                    let expect = *comm == "public" && w == s;
                    let got = so.unwrap_pdu(msg).is_some();
                    assert_eq!(got, expect, "stored id {} wire id {} community {:?}", s, w, comm);
                }
            }
            // push_pdu: the wire image carries the session community and the PDU (decoded back with the crate's own decoder)
            let mut so = sock("c0mm");
            let mut buf = Buffer::default();
            let pdu = SnmpPdu::GetRequest(SnmpGet { request_id: s, vars: vec![SnmpOid::try_from("1.3.6.1.2.1.1.3.0").unwrap()] });
            so.push_pdu(pdu, &mut buf).unwrap();
            let back = SnmpV2cMessage::try_from(buf.data()).unwrap();
            assert_eq!(back.community, b"c0mm");
            match back.pdu {
                SnmpPdu::GetRequest(g) => {
                    assert_eq!(g.request_id, s);
                    assert_eq!(g.vars.len(), 1);
                }
                _ => panic!("wrong pdu type on the wire"),
            }
        }
    }
    // build a RequestId holding `v`: draw until the masked random value equals v is hopeless, so go through the public
    // API only where possible and otherwise through a transmute-free field write (the field is private to reqid.rs)
    fn make_reqid(v: i64) -> RequestId {
        crate::reqid::verif_make_reqid(v)
    }
}
