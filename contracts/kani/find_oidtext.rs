// @append-to: src/ber/objectid.rs
// Native sampling finder for the text -> BER conversion (used only behind a failed / undecided obligation of C08 / C03).
#[cfg(test)]
mod verif_find_oidtext {
    use super::*;
    fn ref_arc(v: u32, out: &mut Vec<u8>) {
        let mut groups = vec![(v & 0x7f) as u8];
        let mut t = v >> 7;
        while t > 0 {
            groups.push((t & 0x7f) as u8 | 0x80);
            t >>= 7;
        }
        groups.reverse();
        out.extend_from_slice(&groups);
    }
    #[test]
    fn finder_oid_text() {
        let mut vals: Vec<u32> = vec![0, 1, 39, 40, 126, 127, 128, 129, 255, 256, 16383, 16384, 16385, 32768, 65535, 65536, 2097151, 2097152, 2097153,
            4194304, 268435455, 268435456, 268435457, 436207616, 0x7fff_ffff, 0x8000_0000, 0xffff_fffe, 0xffff_ffff];
        vals.extend((7..32).map(|k| 1u32 << k));
        vals.extend((7..32).map(|k| (1u32 << k) | 1));
        for &v in vals.iter() {
            for &w in [0u32, 5, 300, 0xffff_ffff].iter() {
                let text = format!("1.3.6.{}.{}.1", v, w);
                let oid = SnmpOid::try_from(text.as_str()).unwrap();
                let mut exp = vec![0x2bu8, 6];
                ref_arc(v, &mut exp);
                ref_arc(w, &mut exp);
                exp.push(1);
                assert_eq!(oid.0.as_ref(), &exp[..], "text {}", text);
            }
        }
        for (t, first) in [("0.0", 0u8), ("0.39", 39), ("1.0", 40), ("1.39", 79), ("2.0", 80), ("2.39", 119)] {
            assert_eq!(SnmpOid::try_from(t).unwrap().0.as_ref(), &[first][..], "text {}", t);
        }
        for bad in ["", "1", "1.", ".1", "1..3", "1.3.", "3.1", "1.40", "2.40", "1.-3", "1.3.a", "1.3.4294967296", "1.3. 4", "a.b", "1,3"] {
            assert!(SnmpOid::try_from(bad).is_err(), "text {:?} accepted", bad);
        }
        // first arc must be 0..2 and second 0..39 as NUMBERS: values that only look right modulo 2^8 / 2^16 / 2^32 are refused
        for first in [3u64, 4, 40, 255, 256, 257, 258, 259, 65536, 65537, 65538, 4294967295] {
            for second in [0u64, 3, 39] {
                let t = format!("{}.{}.6.1", first, second);
                assert!(SnmpOid::try_from(t.as_str()).is_err(), "text {:?} accepted", t);
            }
        }
        for second in [40u64, 41, 255, 256, 257, 259, 295, 296, 65536, 65539, 65575, 4294967295] {
            for first in [0u64, 1, 2] {
                let t = format!("{}.{}.6.1", first, second);
                assert!(SnmpOid::try_from(t.as_str()).is_err(), "text {:?} accepted", t);
            }
        }
    }
}
