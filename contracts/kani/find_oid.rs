// @append-to: src/ber/objectid.rs
// Counterexample finder / native replay for SnmpOid::arc_cmp and the GetIter bookkeeping (bounded: OIDs of 0..4 contents
// octets each). Executable form of the contracts: arc_cmp agrees with an independent sub-identifier-wise comparison;
// store() stores exactly the OID.
#[cfg(any(kani, test))]
mod verif_find_oid {
    use super::*;

    // independent reference: decode into (value, count) arrays, then compare lexicographically
    fn arcs(d: &[u8], out: &mut [u64; 4]) -> usize {
        let mut n = 0;
        let mut v: u64 = 0;
        let mut open = false;
        let mut k = 0;
        while k < d.len() {
            v = (v << 7) | ((d[k] & 0x7f) as u64);
            open = true;
            if d[k] & 0x80 == 0 {
                out[n] = v;
                n += 1;
                v = 0;
                open = false;
            }
            k += 1;
        }
        if open {
            out[n] = v;
            n += 1;
        }
        n
    }
    pub fn check_arc_cmp(a: &[u8], b: &[u8]) {
        let (mut xa, mut xb) = ([0u64; 4], [0u64; 4]);
        let (na, nb) = (arcs(a, &mut xa), arcs(b, &mut xb));
        let mut expect = Ordering::Equal;
        let mut k = 0;
        while k < na && k < nb {
            if xa[k] != xb[k] {
                expect = if xa[k] < xb[k] { Ordering::Less } else { Ordering::Greater };
                break;
            }
            k += 1;
        }
        if expect == Ordering::Equal && na != nb {
            expect = if na < nb { Ordering::Less } else { Ordering::Greater };
        }
        let oa = SnmpOid(Cow::Borrowed(a));
        let ob = SnmpOid(Cow::Borrowed(b));
        assert!(oa.arc_cmp(&ob) == expect);
        // storage keeps exactly what it is given, whatever it held before
        let mut st: Vec<u8> = a.to_vec();
        st.store(&ob);
        assert!(st.as_borrowed().0.as_ref() == b);
        assert!(st.as_owned().0.as_ref() == b);
    }
    #[cfg(kani)]
    #[kani::proof]
    #[kani::unwind(6)]
    fn finder_arc_cmp() {
        let a: [u8; 4] = kani::any();
        let b: [u8; 4] = kani::any();
        let na: usize = kani::any();
        let nb: usize = kani::any();
        kani::assume(na <= 4 && nb <= 4);
        check_arc_cmp(&a[..na], &b[..nb]);
    }
    #[test]
    fn replay_arc_cmp() {
        // VERIF_REPLAY_HEX = a[4] b[4] na(8 LE) nb(8 LE)
        let hex = std::env::var("VERIF_REPLAY_HEX").unwrap_or_default();
        let bytes: Vec<u8> = (0..hex.len() / 2).map(|k| u8::from_str_radix(&hex[2 * k..2 * k + 2], 16).unwrap()).collect();
        if bytes.len() < 24 {
            return;
        }
        let na = (bytes[8] as usize).min(4);
        let nb = (bytes[16] as usize).min(4);
        check_arc_cmp(&bytes[0..na], &bytes[4..4 + nb]);
    }
}
