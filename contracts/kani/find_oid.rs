// @append-to: src/ber/objectid.rs
// Counterexample finder / native replay for SnmpOid::arc_cmp and the GetIter bookkeeping (bounded: OIDs of 0..4 contents
// octets each). Executable form of the contracts: arc_cmp agrees with an independent sub-identifier-wise comparison;
// store() stores exactly the OID.
// Only OIDs a datagram can deliver count: finder and native replay pass both operands through SnmpOid::from_ber of the tree
// under check, so contents its decoder refuses (those that end inside a sub-identifier) are never reported.
#[cfg(any(kani, test))]
mod verif_find_oid {
    use super::*;

    // independent reference: decode into (value, count) arrays, then compare lexicographically
    fn arcs(d: &[u8], out: &mut [u64; 4]) -> usize {
        let mut n = 0;
        let mut v: u64 = 0;
        let mut open = false;
        let mut k = 0;
        while k < d.len() {
            v = (v << 7) | ((d[k] & 0x7f) as u64);
            open = true;
            if d[k] & 0x80 == 0 {
                out[n] = v;
                n += 1;
                v = 0;
                open = false;
            }
            k += 1;
        }
        if open {
            out[n] = v;
            n += 1;
        }
        n
    }
    pub fn check_arc_cmp(a: &[u8], b: &[u8]) {
        let (mut xa, mut xb) = ([0u64; 4], [0u64; 4]);
        let (na, nb) = (arcs(a, &mut xa), arcs(b, &mut xb));
        let mut expect = Ordering::Equal;
        let mut k = 0;
        while k < na && k < nb {
            if xa[k] != xb[k] {
                expect = if xa[k] < xb[k] { Ordering::Less } else { Ordering::Greater };
                break;
            }
            k += 1;
        }
        if expect == Ordering::Equal && na != nb {
            expect = if na < nb { Ordering::Less } else { Ordering::Greater };
        }
        let oa = SnmpOid(Cow::Borrowed(a));
        let ob = SnmpOid(Cow::Borrowed(b));
        assert!(oa.arc_cmp(&ob) == expect);
        // storage keeps exactly what it is given, whatever it held before
        let mut st: Vec<u8> = a.to_vec();
        st.store(&ob);
        assert!(st.as_borrowed().0.as_ref() == b);
        assert!(st.as_owned().0.as_ref() == b);
    }
    #[cfg(kani)]
    #[kani::proof]
    #[kani::unwind(6)]
    fn finder_arc_cmp() {
        let a: [u8; 4] = kani::any();
        let b: [u8; 4] = kani::any();
        let na: usize = kani::any();
        let nb: usize = kani::any();
        kani::assume(na <= 4 && nb <= 4);
        // as they arrive: OBJECT IDENTIFIER elements through the crate's decoder
        let ta: [u8; 6] = [0x06, na as u8, a[0], a[1], a[2], a[3]];
        let tb: [u8; 6] = [0x06, nb as u8, b[0], b[1], b[2], b[3]];
        let (oa, ob) = match (SnmpOid::from_ber(&ta[..2 + na]), SnmpOid::from_ber(&tb[..2 + nb])) {
            (Ok((_, x)), Ok((_, y))) => (x, y),
            _ => return, // refused by the decoder: never reaches the walk
        };
        check_arc_cmp(oa.0.as_ref(), ob.0.as_ref());
    }
    #[test]
    fn replay_arc_cmp() {
        // VERIF_REPLAY_HEX = a[4] b[4] na(8 LE) nb(8 LE)
        let hex = std::env::var("VERIF_REPLAY_HEX").unwrap_or_default();
        let bytes: Vec<u8> = (0..hex.len() / 2).map(|k| u8::from_str_radix(&hex[2 * k..2 * k + 2], 16).unwrap()).collect();
        if bytes.len() < 24 {
            return;
        }
        let na = (bytes[8] as usize).min(4);
        let nb = (bytes[16] as usize).min(4);
        // as they arrive: OBJECT IDENTIFIER elements through the crate's decoder
        let mut ta = vec![0x06u8, na as u8];
        ta.extend_from_slice(&bytes[0..na]);
        let mut tb = vec![0x06u8, nb as u8];
        tb.extend_from_slice(&bytes[4..4 + nb]);
        let (oa, ob) = match (SnmpOid::from_ber(&ta), SnmpOid::from_ber(&tb)) {
            (Ok((_, x)), Ok((_, y))) => (x, y),
            _ => return, // refused by the decoder: never reaches the walk
        };
        check_arc_cmp(oa.0.as_ref(), ob.0.as_ref());
    }
}
