// @append-to: src/snmp/getresponse.rs
// Native sampling finder for the varbind list of a GetResponse (used only behind a failed / undecided obligation of
// C02 / C16 on SnmpGetResponse::try_from). Bodies are built by an independent forward encoder.
#[cfg(test)]
mod verif_find_varbinds {
    use super::*;
    fn tlv(tag: u8, c: &[u8]) -> Vec<u8> {
        let mut o = vec![tag];
        let n = c.len();
        if n < 128 {
            o.push(n as u8);
        } else if n < 256 {
            o.extend_from_slice(&[0x81, n as u8]);
        } else {
            o.extend_from_slice(&[0x82, (n >> 8) as u8, n as u8]);
        }
        o.extend_from_slice(c);
        o
    }
    fn body(n: usize, trailing: bool) -> (Vec<u8>, Vec<(Vec<u8>, u8, Vec<u8>)>) {
        let mut list = Vec::new();
        let mut exp = Vec::new();
        for k in 0..n {
            let oid = vec![0x2b, 6, 1, 2, 1, (k % 120) as u8, (k / 120) as u8 + 1];
            let (tag, c): (u8, Vec<u8>) = match k % 5 {
                0 => (0x02, vec![(k % 100) as u8 + 1]),
                1 => (0x04, vec![b'a'; k % 7]),
                2 => (0x41, vec![0, 0x80 | (k as u8 & 0x7f), 1]),
                3 => (0x46, vec![1, 2, 3, 4, 5, 6, 7, (k & 0xff) as u8]),
                _ => (0x05, vec![]),
            };
            let mut vb = tlv(0x06, &oid);
            vb.extend_from_slice(&tlv(tag, &c));
            if trailing {
                vb.extend_from_slice(&[0x05, 0x00]);
            }
            list.extend_from_slice(&tlv(0x30, &vb));
            exp.push((oid, tag, c));
        }
        let mut b = tlv(0x02, &[0x12, 0x34]);
        b.extend_from_slice(&[0x02, 0x01, 0x00, 0x02, 0x01, 0x00]);
        b.extend_from_slice(&tlv(0x30, &list));
        (b, exp)
    }
    fn be(c: &[u8]) -> u64 {
        c.iter().fold(0u64, |a, &x| (a << 8) | x as u64)
    }
    #[test]
    fn finder_varbind_list() {
        for n in (0..=40).chain([63, 64, 65, 100, 127, 128, 129, 200, 255, 256, 257]) {
            let (b, exp) = body(n, false);
            if b.len() > 60000 {
                continue;
            }
            let r = SnmpGetResponse::try_from(b.as_slice()).unwrap_or_else(|_| panic!("{} varbinds rejected", n));
            assert_eq!(r.request_id, 0x1234);
            assert_eq!(r.vars.len(), n, "varbind count");
            for (k, var) in r.vars.into_iter().enumerate() {
                let (oid, tag, c) = &exp[k];
                assert_eq!(var.oid.0.as_ref(), &oid[..], "name of varbind {} of {}", k, n);
                let ok = match (var.value, *tag) {
                    (SnmpValue::Int(x), 0x02) => i64::from(x) as u64 == be(c),
                    (SnmpValue::OctetString(x), 0x04) => x.0 == &c[..],
                    (SnmpValue::Counter32(x), 0x41) => x.0 as u64 == be(c),
                    (SnmpValue::Counter64(x), 0x46) => x.0 == be(c),
                    (SnmpValue::Null, 0x05) => true,
                    _ => false,
                };
                assert!(ok, "value of varbind {} of {}", k, n);
            }
        }
    }
}
