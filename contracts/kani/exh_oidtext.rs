// @append-to: src/ber/objectid.rs
// BOUNDED stand-in for the two functions of the text -> OID path whose bodies are outside Verus and whose contracts the
// oidtext unit ASSUMES (OidSubelementIterator::new: str::split; ::next: str::parse::<u32>): a NATIVE EXHAUSTIVE enumeration
// of every string of 0..=5 characters over the alphabet "0 1 2 9 . + - a <space>" (66 430 strings) and of every
// "X.Y.Z" with X, Y, Z in a boundary set, against a reference written from the property statement (C08) and the
// grammar of a decimal arc. Labelled bounded; never counted as proved.
#[cfg(test)]
mod verif_exh_oidtext {
    use super::*;
    // one arc: decimal digits, value <= 2^32-1. (Rust's str::parse::<u32> also accepts ONE leading '+': the library
    // inherits that; a text with such an arc is not dotted-decimal and the property says nothing about it: skipped.)
    fn arc(p: &str) -> Option<Option<u32>> {
        if p.starts_with('+') {
            return None; // outside the property
        }
        if p.is_empty() || !p.bytes().all(|c| c.is_ascii_digit()) {
            return Some(None);
        }
        let mut v: u64 = 0;
        for c in p.bytes() {
            v = v * 10 + (c - b'0') as u64;
            if v > u32::MAX as u64 {
                return Some(None);
            }
        }
        Some(Some(v as u32))
    }
    fn base128(v: u32, out: &mut Vec<u8>) {
        let mut g = vec![(v & 0x7f) as u8];
        let mut t = v >> 7;
        while t > 0 {
            g.push((t & 0x7f) as u8 | 0x80);
            t >>= 7;
        }
        g.reverse();
        out.extend_from_slice(&g);
    }
    // Some(Some(contents)) accepted, Some(None) must be refused, None: outside the property
    fn reference(s: &str) -> Option<Option<Vec<u8>>> {
        let mut arcs = Vec::new();
        let mut bad = false;
        for p in s.split('.') {
            match arc(p) {
                None => return None,
                Some(None) => bad = true,
                Some(Some(v)) => arcs.push(v),
            }
        }
        if bad || arcs.len() < 2 || arcs[0] > 2 || arcs[1] > 39 {
            return Some(None);
        }
        let mut out = vec![(arcs[0] * 40 + arcs[1]) as u8];
        for &a in &arcs[2..] {
            base128(a, &mut out);
        }
        Some(Some(out))
    }
    fn check(s: &str) {
        let exp = match reference(s) {
            None => return,
            Some(e) => e,
        };
        let got = SnmpOid::try_from(s).ok().map(|o| o.0.to_vec());
        assert_eq!(got, exp, "OID text {:?}", s);
    }
    #[test]
    fn exhaustive_oid_text() {
        let alphabet: [char; 9] = ['0', '1', '2', '9', '.', '+', '-', 'a', ' '];
        let mut cur: Vec<String> = vec![String::new()];
        check("");
        for _len in 1..=5 {
            let mut next = Vec::with_capacity(cur.len() * 9);
            for s in cur.iter() {
                for c in alphabet.iter() {
                    let mut t = s.clone();
                    t.push(*c);
                    check(&t);
                    next.push(t);
                }
            }
            cur = next;
        }
        let vals = ["0", "1", "2", "3", "39", "40", "127", "128", "255", "256", "16383", "16384", "4294967295", "4294967296", "00", "007", ""];
        for x in vals.iter() {
            for y in vals.iter() {
                for z in vals.iter() {
                    check(&format!("{}.{}.{}", x, y, z));
                    check(&format!("1.3.{}.{}.{}", x, y, z));
                }
            }
        }
    }
}
