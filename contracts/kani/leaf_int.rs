// @append-to: src/ber/int.rs
// Kani contracts for the reduce-based INTEGER decoder (Verus assumes exactly these facts).
#[cfg(kani)]
mod verif_leaf_int {
    use super::*;
    use crate::ber::BerClass;
    fn hdr(len: usize) -> BerHeader {
        BerHeader { class: BerClass::Universal, constructed: false, tag: TAG_INT, length: len }
    }
    // SnmpInt::decode: total for every content; Ok ==> length <= 8 and value == two's complement (X.690 8.3).
    // The reduce loop is bounded by the length check (<= 8), so unwind(18) with unwinding assertions is complete
    // for contents of 0..16 octets; longer contents take the same `length > 8` exit before any octet is read.
    #[kani::proof]
    #[kani::unwind(18)]
    fn proof_int_decode() {
        let a: [u8; 16] = kani::any();
        let len: usize = kani::any();
        kani::assume(len <= 16);
        let r = SnmpInt::decode(&a, &hdr(len));
        if len > 8 {
            assert!(r.is_err());
        } else {
            let v = r.unwrap().0;
            let mut b = if len > 0 && a[0] & 0x80 != 0 { [0xffu8; 8] } else { [0u8; 8] };
            let mut k = 0;
            while k < len {
                b[8 - len + k] = a[k];
                k += 1;
            }
            assert!(v == i64::from_be_bytes(b));
        }
        kani::cover!(len == 8 && a[0] == 0x80);
    }
}
