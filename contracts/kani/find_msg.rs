// @append-to: src/snmp/msg/mod.rs
// Native sampling finder for the message-level decoders (used only behind a failed / undecided obligation of
// C04 / C16 / C13 on the TryFrom<&[u8]> impls of the v1 / v2c / v3 messages). Datagrams are built by an independent
// forward encoder; the decoded fields must be the octets that were put in, and a message of another version, a
// non-canonical version number (v + 256) or trailing octets must be refused.
#[cfg(test)]
mod verif_find_msg {
    use super::v3::MsgData;
    use super::*;
    fn tlv(tag: u8, c: &[u8]) -> Vec<u8> {
        let mut o = vec![tag];
        let n = c.len();
        if n < 128 {
            o.push(n as u8);
        } else if n < 256 {
            o.extend_from_slice(&[0x81, n as u8]);
        } else {
            o.extend_from_slice(&[0x82, (n >> 8) as u8, n as u8]);
        }
        o.extend_from_slice(c);
        o
    }
    fn cat(parts: &[Vec<u8>]) -> Vec<u8> {
        parts.iter().flat_map(|p| p.iter().copied()).collect()
    }
    fn response_pdu(request_id: &[u8]) -> Vec<u8> {
        let vb = tlv(0x30, &cat(&[tlv(0x06, &[0x2b, 6, 1, 2, 1, 1, 3, 0]), tlv(0x43, &[0x01, 0x02])]));
        tlv(0xa2, &cat(&[tlv(0x02, request_id), vec![0x02, 0x01, 0x00, 0x02, 0x01, 0x00], tlv(0x30, &vb)]))
    }
    fn community_msg(version: &[u8], community: &[u8]) -> Vec<u8> {
        tlv(0x30, &cat(&[tlv(0x02, version), tlv(0x04, community), response_pdu(&[0x12, 0x34, 0x56])]))
    }
    fn v3_msg(version: &[u8], flags: u8, encrypted: bool) -> Vec<u8> {
        let header = tlv(0x30, &cat(&[tlv(0x02, &[0x01, 0x02]), tlv(0x02, &[0x08, 0x00]), tlv(0x04, &[flags]), tlv(0x02, &[3])]));
        let usm = tlv(
            0x30,
            &cat(&[tlv(0x04, b"engine"), tlv(0x02, &[7]), tlv(0x02, &[0x01, 0x00]), tlv(0x04, b"user"), tlv(0x04, &[9; 12]), tlv(0x04, &[8; 8])]),
        );
        let scoped = tlv(0x30, &cat(&[tlv(0x04, b"ctx"), tlv(0x04, b""), response_pdu(&[0x22])]));
        let data = if encrypted { tlv(0x04, &[0xaa; 24]) } else { scoped };
        tlv(0x30, &cat(&[tlv(0x02, version), header, tlv(0x04, &usm), data]))
    }
    fn req_id(p: &SnmpPdu) -> i64 {
        match p {
            SnmpPdu::GetResponse(r) => {
                assert_eq!(r.vars.len(), 1);
                r.request_id
            }
            _ => panic!("PDU type"),
        }
    }
    #[test]
    fn finder_msg_decode() {
        // v1 / v2c: fields
        for community in [&b""[..], b"public", &[0x55u8; 200]] {
            let d = community_msg(&[0], community);
            let m = SnmpV1Message::try_from(d.as_slice()).unwrap();
            assert_eq!(m.community, community);
            assert_eq!(req_id(&m.pdu), 0x123456);
            let d = community_msg(&[1], community);
            let m = SnmpV2cMessage::try_from(d.as_slice()).unwrap();
            assert_eq!(m.community, community);
            assert_eq!(req_id(&m.pdu), 0x123456);
        }
        // version must be the session's, exactly
        for v in [&[1u8][..], &[3], &[2], &[0x01, 0x00], &[0x01, 0x00, 0x00], &[0xff]] {
            assert!(SnmpV1Message::try_from(community_msg(v, b"public").as_slice()).is_err(), "v1 decoder accepts version {:?}", v);
        }
        for v in [&[0u8][..], &[3], &[2], &[0x01, 0x01], &[0x01, 0x00, 0x01], &[0xff, 0x01]] {
            assert!(SnmpV2cMessage::try_from(community_msg(v, b"public").as_slice()).is_err(), "v2c decoder accepts version {:?}", v);
        }
        for v in [&[0u8][..], &[1], &[2], &[0x01, 0x03], &[0x01, 0x00, 0x03], &[0xff, 0x03]] {
            assert!(SnmpV3Message::try_from(v3_msg(v, 0, false).as_slice()).is_err(), "v3 decoder accepts version {:?}", v);
        }
        // nothing may follow the message
        for extra in [&[0u8][..], &[0x05, 0x00], &[0x30, 0x00]] {
            let mut d = community_msg(&[0], b"public");
            d.extend_from_slice(extra);
            assert!(SnmpV1Message::try_from(d.as_slice()).is_err(), "v1: trailing octets accepted");
            let mut d = community_msg(&[1], b"public");
            d.extend_from_slice(extra);
            assert!(SnmpV2cMessage::try_from(d.as_slice()).is_err(), "v2c: trailing octets accepted");
            let mut d = v3_msg(&[3], 0, false);
            d.extend_from_slice(extra);
            assert!(SnmpV3Message::try_from(d.as_slice()).is_err(), "v3: trailing octets accepted");
        }
        // v3: fields
        for flags in 0u8..8 {
            for encrypted in [false, true] {
                let d = v3_msg(&[3], flags, encrypted);
                let m = SnmpV3Message::try_from(d.as_slice()).unwrap();
                assert_eq!(m.msg_id, 0x0102);
                assert_eq!((m.flag_auth, m.flag_priv, m.flag_report), (flags & 1 != 0, flags & 2 != 0, flags & 4 != 0));
                assert_eq!(m.usm.engine_id, b"engine");
                assert_eq!((m.usm.engine_boots, m.usm.engine_time), (7, 256));
                assert_eq!(m.usm.user_name, b"user");
                assert_eq!(m.usm.auth_params, &[9u8; 12]);
                assert_eq!(m.usm.privacy_params, &[8u8; 8]);
                match m.data {
                    MsgData::Encrypted(x) => {
                        assert!(encrypted);
                        assert_eq!(x, &[0xaau8; 24]);
                    }
                    MsgData::Plaintext(sp) => {
                        assert!(!encrypted);
                        assert_eq!(sp.engine_id, b"ctx");
                        assert_eq!(req_id(&sp.pdu), 0x22);
                    }
                }
            }
        }
    }
}
