// @append-to: src/ber/real.rs
// BOUNDED stand-in for SnmpReal::decode (f64 arithmetic and str::parse::<f64> are outside Verus; CBMC does not finish
// on dec2flt): a NATIVE EXHAUSTIVE enumeration of every contents string of 0..=3 octets (16 843 009 inputs) and every
// 4-octet contents in binary form with a 1-octet exponent and base 2, against a reference written from X.690 §8.5,
// plus the extent relation (C16) for every contents of 0..=2 octets under five different trailers.
// Labelled bounded; never counted as proved.
#[cfg(test)]
mod verif_exh_real {
    use super::*;
    use crate::ber::BerDecoder;

    #[derive(Debug, Clone, Copy)]
    enum Exp {
        Refused,
        Val(f64),
        Nan,
        AnyValue, // accepted; magnitude outside the range where the reference is exact
    }
    // X.690 §8.5: what the contents octets c of a REAL denote
    fn reference(c: &[u8]) -> Exp {
        if c.is_empty() {
            return Exp::Val(0.0); // 8.5.2
        }
        let f = c[0];
        if f & 0x80 != 0 {
            // 8.5.7 binary: M = S * N * 2^F * B^E
            let per_e: i64 = match (f >> 4) & 3 {
                0 => 1, // base 2
                1 => 3, // base 8
                2 => 4, // base 16
                _ => return Exp::Refused,
            };
            let scale = ((f >> 2) & 3) as i64;
            let (es, ln) = if f & 3 == 3 {
                if c.len() < 2 {
                    return Exp::Refused;
                }
                (2usize, 2 + c[1] as usize)
            } else {
                (1usize, (f & 3) as usize + 2)
            };
            if c.len() < ln || ln == es || ln - es > 4 {
                return Exp::Refused;
            }
            let mut e: i64 = if c[es] & 0x80 != 0 { -1 } else { 0 };
            for &x in &c[es..ln] {
                e = (e << 8) | x as i64;
            }
            let mut n: u128 = 0;
            for &x in &c[ln..] {
                n = (n << 8) | x as u128;
            }
            let sign = if f & 0x40 != 0 { -1.0 } else { 1.0 };
            if n == 0 {
                return Exp::Val(0.0);
            }
            let k = scale + per_e * e;
            // n fits u128 (<= 12 mantissa octets here); 2^k exact inside the normal range. Near / beyond the ends of the f64 range
            // (overflow to infinity, subnormals) only "accepted" is compared, not the digits.
            if k > 900 || k < -900 {
                return Exp::AnyValue;
            }
            return Exp::Val(sign * (n as f64) * 2f64.powi(k as i32));
        }
        if f & 0xc0 == 0 {
            // 8.5.8 decimal: ISO 6093 NR1 / NR2 / NR3 text (the text -> number step is std's, as in the library)
            let s = match core::str::from_utf8(&c[1..]) {
                Ok(s) => s,
                Err(_) => return Exp::Refused,
            };
            return match f & 0x3f {
                1 => s.parse::<i32>().map(|v| Exp::Val(v as f64)).unwrap_or(Exp::Refused),
                2 | 3 => match s.parse::<f64>() {
                    Ok(v) if v.is_nan() => Exp::Nan,
                    Ok(v) => Exp::Val(v),
                    Err(_) => Exp::Refused,
                },
                _ => Exp::Refused,
            };
        }
        match f {
            0x40 => Exp::Val(f64::INFINITY),
            0x41 => Exp::Val(f64::NEG_INFINITY),
            0x42 => Exp::Nan,
            0x43 => Exp::Val(-0.0),
            _ => Exp::Refused,
        }
    }
    fn agree(got: &Result<SnmpReal, SnmpError>, exp: Exp) -> bool {
        match (got, exp) {
            (Err(_), Exp::Refused) => true,
            (Ok(v), Exp::Nan) => v.0.is_nan(),
            (Ok(_), Exp::AnyValue) => true,
            (Ok(v), Exp::Val(x)) => v.0 == x || (v.0 - x).abs() <= x.abs() * 1e-15,
            _ => false,
        }
    }
    fn check(c: &[u8]) {
        let h = BerHeader { class: crate::ber::BerClass::Universal, constructed: false, tag: TAG_REAL, length: c.len() };
        let got = SnmpReal::decode(c, &h);
        let exp = reference(c);
        assert!(agree(&got, exp), "REAL contents {:02x?}: library {:?}, X.690 {:?}", c, got.as_ref().map(|v| v.0).map_err(|_| ()), exp);
    }
    #[test]
    fn exhaustive_real_decode() {
        check(&[]);
        for a in 0..=255u8 {
            check(&[a]);
            for b in 0..=255u8 {
                check(&[a, b]);
                for c in 0..=255u8 {
                    check(&[a, b, c]);
                }
            }
        }
        // 4 octets: binary, base 2, every sign / scale, 1-octet exponent, 2-octet mantissa
        for f in [0x80u8, 0x84, 0x88, 0x8c, 0xc0, 0xcc] {
            for e in 0..=255u8 {
                for m in 0..=0xffffu16 {
                    check(&[f, e, (m >> 8) as u8, m as u8]);
                }
            }
        }
    }
    // multi-octet exponents (two, three octets and the length-prefixed format), every base, both signs
    #[test]
    fn exhaustive_real_long_exponents() {
        for f0 in [0x80u8, 0xc0, 0x90, 0xa0, 0x84, 0x8c] {
            // two exponent octets: all 65536 exponents
            for e in 0..=0xffffu16 {
                for m in [1u8, 3, 0xff] {
                    check(&[f0 | 1, (e >> 8) as u8, e as u8, m]);
                }
            }
            let b = [0x00u8, 0x01, 0x7f, 0x80, 0xfe, 0xff];
            for &e1 in b.iter() {
                for &e2 in b.iter() {
                    for &e3 in b.iter() {
                        // three exponent octets
                        check(&[f0 | 2, e1, e2, e3, 0x05]);
                        check(&[f0 | 2, e1, e2, e3, 0x01, 0x00]);
                        // length-prefixed exponent: 1..4 octets (and the refused lengths 0 and 5)
                        check(&[f0 | 3, 0, 0x05]);
                        check(&[f0 | 3, 1, e1, 0x05]);
                        check(&[f0 | 3, 2, e1, e2, 0x05]);
                        check(&[f0 | 3, 3, e1, e2, e3, 0x05]);
                        check(&[f0 | 3, 4, e1, e2, e3, 0x10, 0x05]);
                        check(&[f0 | 3, 5, e1, e2, e3, 0x10, 0x20, 0x05]);
                    }
                }
            }
        }
    }
    // long mantissas (X.690 puts no bound on N): 5..12 octets, boundary octet values, with small exponents
    #[test]
    fn exhaustive_real_long_mantissas() {
        let b = [0x00u8, 0x01, 0x7f, 0x80, 0xff];
        for f0 in [0x80u8, 0xc0, 0x88] {
            for e in [0x00u8, 0x01, 0xff, 0x10, 0xf0] {
                for len in 5..=12usize {
                    for &first in b.iter() {
                        for &mid in b.iter() {
                            for &last in b.iter() {
                                let mut c = vec![f0, e];
                                c.push(first);
                                for _ in 0..len - 2 {
                                    c.push(mid);
                                }
                                c.push(last);
                                check(&c);
                            }
                        }
                    }
                }
            }
        }
        // 10^20 sent as N = integer, E = 0
        check(&[0x80, 0x00, 0x05, 0x6b, 0xc7, 0x5e, 0x2d, 0x63, 0x10, 0x00, 0x00]);
    }
    // C16: the value depends on the contents octets only and the remainder is exactly what follows the element
    #[test]
    fn exhaustive_real_extent() {
        let trailers: [&[u8]; 5] = [&[], &[0x05, 0x00], &[0x35, 0x30], &[0xff], &[0x09, 0x01, 0x40, 0x00]];
        let mut contents: Vec<Vec<u8>> = vec![vec![]];
        for a in 0..=255u8 {
            contents.push(vec![a]);
            for b in 0..=255u8 {
                contents.push(vec![a, b]);
            }
        }
        for c in [&[0x80u8, 0x00, 0x03][..], &[0x84, 0xff, 0x03], &[0x01, 0x37, 0x35], &[0x03, 0x31, 0x35, 0x45, 0x2d, 0x31], &[0x83, 0x01, 0x02, 0x05]] {
            contents.push(c.to_vec());
        }
        for c in contents.iter() {
            let exp = reference(c);
            for t in trailers.iter() {
                let mut d = vec![0x09u8, c.len() as u8];
                d.extend_from_slice(c);
                d.extend_from_slice(t);
                match SnmpReal::from_ber(&d) {
                    Ok((rest, v)) => {
                        assert_eq!(rest, *t, "REAL {:02x?} + {:02x?}: remainder", c, t);
                        assert!(agree(&Ok(v), exp), "REAL {:02x?} followed by {:02x?}: value differs from the value of the element alone", c, t);
                    }
                    Err(_) => assert!(matches!(exp, Exp::Refused), "REAL {:02x?} followed by {:02x?} refused", c, t),
                }
            }
        }
    }
}
