// @append-to: src/buf/buffer.rs
// Kani contracts for the real `unsafe` Buffer (property C17). Each harness starts from an ARBITRARY well-formed
// buffer (symbolic pos <= MAX_SIZE, symbolic bookmark, symbolic 4080-octet contents), so "any sequence of buffer
// operations" reduces to one operation from any state satisfying the invariant pos <= MAX_SIZE.
// Contents are compared pointwise at a symbolic index (complete for every index, cheap for CBMC).
// CBMC's pointer checks (bounds of every raw access, valid slice construction) are on.
// These are the facts assumed by the Verus Buffer shim (contracts/verus/shims/buffer.rs), clause by clause.
#[cfg(kani)]
mod verif_buffer {
    use super::*;

    // An arbitrary well-formed buffer: symbolic pos <= MAX_SIZE, symbolic bookmark. Its contents are tracked at ONE
    // arbitrary absolute position `j` holding an arbitrary octet `w` (every other octet is left unwritten and is never
    // read by a check): a frame statement proved for an arbitrary (j, w) holds for every octet of the old contents.
    struct Old {
        j: usize,
        w: u8,
    }
    fn any_buffer(b: &mut Buffer) -> Old {
        b.pos = kani::any();
        b.bookmark = kani::any();
        kani::assume(b.pos <= MAX_SIZE); // wf
        let j: usize = kani::any();
        let w: u8 = kani::any();
        kani::assume(j < MAX_SIZE);
        b.data[j].write(w);
        Old { j, w }
    }
    // after an operation that moved the front from `pos` to b.pos: the tracked octet, if it was part of the old
    // data [pos, MAX_SIZE), is still there (same absolute position, i.e. shifted index in data())
    fn frame_ok(b: &Buffer, old: &Old, pos: usize) -> bool {
        if old.j >= pos && b.pos <= pos {
            let d = b.data();
            d[old.j - b.pos] == old.w
        } else {
            true
        }
    }

    // view(): data() has length MAX_SIZE - pos and exposes exactly octets [pos, MAX_SIZE)
    #[kani::proof]
    fn proof_buffer_data_view() {
        let mut b = Buffer::default();
        let old = any_buffer(&mut b);
        let pos = b.pos;
        assert!(b.len() == MAX_SIZE - pos);
        assert!(b.free() == pos);
        assert!(b.is_empty() == (pos == MAX_SIZE));
        assert!(b.is_full() == (pos == 0));
        {
            let d = b.data();
            assert!(d.len() == MAX_SIZE - pos);
            if old.j >= pos {
                assert!(d[old.j - pos] == old.w);
            }
        }
        {
            let d = b.data_mut();
            assert!(d.len() == MAX_SIZE - pos);
            if old.j >= pos {
                assert!(d[old.j - pos] == old.w);
                let w2: u8 = kani::any();
                d[old.j - pos] = w2;
                assert!(d[old.j - pos] == w2);
            }
        }
        assert!(b.pos == pos);
        let need: usize = kani::any();
        assert!(b.ensure_size(need).is_ok() == (need <= pos));
        kani::cover!(pos == 0);
        kani::cover!(pos == MAX_SIZE);
    }

    #[kani::proof]
    fn proof_buffer_push_u8() {
        let mut b = Buffer::default();
        let old = any_buffer(&mut b);
        let (pos, bm) = (b.pos, b.bookmark);
        let v: u8 = kani::any();
        let r = b.push_u8(v);
        assert!(b.pos <= MAX_SIZE && b.bookmark == bm);
        if pos == 0 {
            assert!(matches!(r, Err(SnmpError::OutOfBuffer)));
            assert!(b.pos == pos);
        } else {
            assert!(r.is_ok());
            assert!(b.pos == pos - 1);
            assert!(b.data()[0] == v);
            assert!(frame_ok(&b, &old, pos));
        }
        kani::cover!(pos == 1);
    }

    // push: complete in pos and in the chunk contents, one harness per chunk LENGTH class (a symbolic length makes CBMC's
    // memcpy model run out of memory): lengths 0, 1, 2, 3, 6 and 12 — the sizes of EMPTY_BER, NULL, V*_BER, DOUBLE_ZEROES,
    // the auth placeholder. Bounded in the chunk length only.
    fn check_push<const N: usize>() {
        let mut b = Buffer::default();
        let old = any_buffer(&mut b);
        let (pos, bm) = (b.pos, b.bookmark);
        let chunk: [u8; N] = kani::any();
        let r = b.push(&chunk);
        assert!(b.pos <= MAX_SIZE && b.bookmark == bm);
        if pos < N {
            assert!(matches!(r, Err(SnmpError::OutOfBuffer)));
            assert!(b.pos == pos);
        } else {
            assert!(r.is_ok());
            assert!(b.pos == pos - N);
            let k: usize = kani::any();
            if k < N {
                assert!(b.data()[k] == chunk[k]);
            }
            assert!(frame_ok(&b, &old, pos));
        }
        kani::cover!(pos == N);
    }
    #[kani::proof]
    fn proof_buffer_push_len0() {
        check_push::<0>();
    }
    #[kani::proof]
    fn proof_buffer_push_len1() {
        check_push::<1>();
    }
    #[kani::proof]
    fn proof_buffer_push_len2() {
        check_push::<2>();
    }
    #[kani::proof]
    fn proof_buffer_push_len3() {
        check_push::<3>();
    }
    #[kani::proof]
    fn proof_buffer_push_len6() {
        check_push::<6>();
    }
    #[kani::proof]
    fn proof_buffer_push_len12() {
        check_push::<12>();
    }

    fn tag_len_ref(tag: u8, v: usize, k: usize) -> u8 {
        // X.690 minimal definite length for v <= 65535, preceded by the identifier octet
        if v < 128 {
            [tag, v as u8, 0, 0][k]
        } else if v < 256 {
            [tag, 0x81, v as u8, 0][k]
        } else {
            [tag, 0x82, (v / 256) as u8, (v % 256) as u8][k]
        }
    }
    fn tag_len_size(v: usize) -> usize {
        if v < 128 { 2 } else if v < 256 { 3 } else { 4 }
    }

    // push_tag_len: the three length forms (short, 0x81, 0x82) partition v <= 0xffff; one harness per form so that they run
    // in parallel (together they are the complete proof)
    fn check_push_tag_len(lo: usize, hi: usize) {
        let mut b = Buffer::default();
        let old = any_buffer(&mut b);
        let (pos, bm) = (b.pos, b.bookmark);
        let tag: u8 = kani::any();
        let v: usize = kani::any();
        kani::assume(lo <= v && v <= hi);
        let hl = tag_len_size(v);
        let r = b.push_tag_len(tag, v);
        assert!(b.pos <= MAX_SIZE && b.bookmark == bm);
        if pos < hl {
            assert!(matches!(r, Err(SnmpError::OutOfBuffer)));
            assert!(b.pos == pos);
        } else {
            assert!(r.is_ok());
            assert!(b.pos == pos - hl);
            let k: usize = kani::any();
            if k < hl {
                assert!(b.data()[k] == tag_len_ref(tag, v, k));
            }
            assert!(frame_ok(&b, &old, pos));
        }
        kani::cover!(v == hi && pos == hl);
        kani::cover!(v == lo && pos == hl - 1);
    }
    #[kani::proof]
    fn proof_buffer_push_tag_len_short() {
        check_push_tag_len(0, 127);
    }
    #[kani::proof]
    fn proof_buffer_push_tag_len_81() {
        check_push_tag_len(128, 255);
    }
    #[kani::proof]
    fn proof_buffer_push_tag_len_82() {
        check_push_tag_len(256, 0xffff);
    }

    // push_tagged: one harness per data length class (0, 5, 8, 12: empty string, short community, engine id / salt, MAC
    // placeholder); on Err the buffer is either untouched or holds the data without header
    fn check_push_tagged<const N: usize>() {
        let mut b = Buffer::default();
        let old = any_buffer(&mut b);
        let (pos, bm) = (b.pos, b.bookmark);
        let tag: u8 = kani::any();
        let chunk: [u8; N] = kani::any();
        let hl = tag_len_size(N);
        let r = b.push_tagged(tag, &chunk);
        assert!(b.pos <= MAX_SIZE && b.bookmark == bm);
        if pos < N + hl {
            assert!(matches!(r, Err(SnmpError::OutOfBuffer)));
            assert!(b.pos == pos || (pos >= N && b.pos == pos - N));
        } else {
            assert!(r.is_ok());
            assert!(b.pos == pos - N - hl);
            let k: usize = kani::any();
            if k < hl {
                assert!(b.data()[k] == tag_len_ref(tag, N, k));
            } else if k < hl + N {
                assert!(b.data()[k] == chunk[k - hl]);
            }
            assert!(frame_ok(&b, &old, pos));
        }
        kani::cover!(pos == N + hl);
    }
    #[kani::proof]
    fn proof_buffer_push_tagged_len0() {
        check_push_tagged::<0>();
    }
    #[kani::proof]
    fn proof_buffer_push_tagged_len5() {
        check_push_tagged::<5>();
    }
    #[kani::proof]
    fn proof_buffer_push_tagged_len12() {
        check_push_tagged::<12>();
    }

    #[kani::proof]
    fn proof_buffer_skip_reset_bookmark() {
        let mut b = Buffer::default();
        let old = any_buffer(&mut b);
        let (pos, bm) = (b.pos, b.bookmark);
        let size: usize = kani::any();
        b.skip(size);
        assert!(b.bookmark == bm);
        assert!(b.pos == if pos < size { 0 } else { pos - size });
        // the old data is the suffix of the new data
        assert!(frame_ok(&b, &old, pos));
        let p2 = b.pos;
        let delta: usize = kani::any();
        kani::assume(delta <= MAX_SIZE - p2);
        b.set_bookmark(delta);
        assert!(b.pos == p2 && b.bookmark == p2 + delta);
        // get_bookmark: bookmark - pos, defined when the bookmark lies inside the data
        assert!(b.get_bookmark() == delta);
        b.reset();
        assert!(b.pos == MAX_SIZE && b.bookmark == p2 + delta);
        assert!(b.is_empty());
        kani::cover!(pos < size);
    }

    #[kani::proof]
    fn proof_buffer_default_and_raw() {
        let mut b = Buffer::default();
        assert!(b.pos == MAX_SIZE && b.bookmark == 0 && b.is_empty());
        {
            let raw: &mut [MaybeUninit<u8>] = b.as_mut();
            assert!(raw.len() == MAX_SIZE);
        }
        let mut c = Buffer::default();
        let old = any_buffer(&mut c);
        let pos = c.pos;
        {
            let m: &mut [u8] = c.as_mut();
            assert!(m.len() == MAX_SIZE - pos);
        }
        // as_slice(len) is the receive path: len comes from recv() into the 4080-octet raw view
        let len: usize = kani::any();
        kani::assume(len <= MAX_SIZE);
        let s = c.as_slice(len);
        assert!(s.len() == len);
        if old.j < len {
            assert!(s[old.j] == old.w);
        }
    }
}
