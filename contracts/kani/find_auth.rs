// @append-to: src/auth/mod.rs
// Native sampling finder for the key-derivation functions (used only behind a failed / undecided Verus obligation).
// Compares the real code with an independent RFC 3414 A.2 implementation over a stated family of inputs.
#[cfg(test)]
mod verif_find_auth {
    use super::*;
    use ::digest::Digest;

    fn ref_master<D: Digest>(password: &[u8], ks: usize) -> Vec<u8> {
        // A.2: hash of the first 1,048,576 octets of the password repeated
        let mut h = D::new();
        let mut count = 0usize;
        let mut idx = 0usize;
        let mut block = [0u8; 64];
        while count < 1_048_576 {
            for b in block.iter_mut() {
                *b = password[idx % password.len()];
                idx += 1;
            }
            h.update(block);
            count += 64;
        }
        h.finalize()[..ks].to_vec()
    }
    fn ref_localize<D: Digest>(ku: &[u8], engine: &[u8], n: usize) -> Vec<u8> {
        let mut h = D::new();
        h.update(ku);
        h.update(engine);
        h.update(ku);
        h.finalize()[..n].to_vec()
    }
    const LENGTHS: [usize; 30] = [
        1, 2, 3, 5, 7, 8, 10, 16, 63, 64, 65, 100, 127, 128, 129, 255, 256, 257, 1000, 1023, 1024, 1025, 1500, 4096, 65535,
        65536, 1048575, 1048576, 1048577, 1500000,
    ];
    #[test]
    fn finder_key_derivation() {
        let engine = [0x80u8, 0, 0x1f, 0x88, 4, 1, 2, 3];
        for &ln in LENGTHS.iter() {
            let password: Vec<u8> = (0..ln).map(|k| (k * 31 % 251) as u8 + 1).collect();
            // MD5
            let k = Md5AuthKey::default();
            let mut out = [0u8; 16];
            k.password_to_master(&password, &mut out);
            assert_eq!(out.to_vec(), ref_master::<md5::Md5>(&password, 16), "md5 password_to_master, password length {}", ln);
            let mut kul = [0u8; 16];
            k.localize(&out, &engine, &mut kul);
            assert_eq!(kul.to_vec(), ref_localize::<md5::Md5>(&out, &engine, 16), "md5 localize, password length {}", ln);
            let mut a = AuthKey::new(1).unwrap();
            a.as_key_type(1, &password, &engine).unwrap();
            assert_eq!(a.get_key(), &kul[..], "md5 as_key_type(password), length {}", ln);
            // SHA-1
            let k = Sha1AuthKey::default();
            let mut out = [0u8; 20];
            k.password_to_master(&password, &mut out);
            assert_eq!(out.to_vec(), ref_master::<sha1::Sha1>(&password, 20), "sha1 password_to_master, password length {}", ln);
            let mut kul = [0u8; 20];
            k.localize(&out, &engine, &mut kul);
            assert_eq!(kul.to_vec(), ref_localize::<sha1::Sha1>(&out, &engine, 20), "sha1 localize, password length {}", ln);
            let mut a = AuthKey::new(2).unwrap();
            a.as_key_type(0x42, &out, &engine).unwrap();
            assert_eq!(a.get_key(), &kul[..], "sha1 as_key_type(master), length {}", ln);
            let mut a = AuthKey::new(2).unwrap();
            a.as_key_type(0x82, &kul, &engine).unwrap();
            assert_eq!(a.get_key(), &kul[..], "sha1 as_key_type(localized), length {}", ln);
        }
    }
}
