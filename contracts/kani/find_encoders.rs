// @append-to: src/snmp/msg/mod.rs
// Native sampling finder for the request encoders (used only behind a failed / undecided obligation of C03 / C08 / C15 /
// C17 on the BerEncoder impls of src/snmp). v1 / v2c Get, GetNext and GetBulk messages with 0..40 names of 1..300 octets
// are compared with an independent forward encoder; each is also pushed in front of 8 / 16 octets already in the buffer
// (the way the privacy layer uses the PDU encoders).
#[cfg(test)]
mod verif_find_encoders {
    use super::*;
    use crate::ber::{BerEncoder, SnmpOid};
    use crate::buf::Buffer;
    use crate::snmp::get::SnmpGet;
    use crate::snmp::getbulk::SnmpGetBulk;
    fn tlv(tag: u8, c: &[u8]) -> Vec<u8> {
        let mut o = vec![tag];
        let n = c.len();
        if n < 128 {
            o.push(n as u8);
        } else if n < 256 {
            o.extend_from_slice(&[0x81, n as u8]);
        } else {
            o.extend_from_slice(&[0x82, (n >> 8) as u8, n as u8]);
        }
        o.extend_from_slice(c);
        o
    }
    fn int(v: i64) -> Vec<u8> {
        let mut b = v.to_be_bytes().to_vec();
        while b.len() > 1 && ((b[0] == 0 && b[1] < 0x80) || (b[0] == 0xff && b[1] >= 0x80)) {
            b.remove(0);
        }
        tlv(2, &b)
    }
    fn name(len: usize, k: usize) -> Vec<u8> {
        let mut o = vec![0x2bu8, 6, 1, 4, 1];
        while o.len() < len {
            o.push(((o.len() * 7 + k) % 127) as u8 + 1);
        }
        o.truncate(len.max(1));
        o
    }
    fn body(rid: i64, f1: i64, f2: i64, names: &[Vec<u8>]) -> Vec<u8> {
        let mut list = Vec::new();
        for n in names {
            let mut vb = tlv(6, n);
            vb.extend_from_slice(&[5, 0]);
            list.extend_from_slice(&tlv(0x30, &vb));
        }
        let mut b = int(rid);
        b.extend_from_slice(&int(f1));
        b.extend_from_slice(&int(f2));
        b.extend_from_slice(&tlv(0x30, &list));
        b
    }
    #[test]
    fn finder_request_encoders() {
        let shapes: Vec<Vec<usize>> = vec![vec![], vec![1], vec![8], vec![126], vec![127], vec![128], vec![129], vec![200], vec![255], vec![256], vec![300],
            vec![8, 8, 8], vec![120, 5, 130], (0..40).map(|_| 9).collect(), (0..12).map(|k| 100 + k * 13).collect()];
        for (si, shape) in shapes.iter().enumerate() {
            let names: Vec<Vec<u8>> = shape.iter().enumerate().map(|(k, l)| name(*l, k)).collect();
            for rid in [0i64, 1, 127, 128, 0x7fff_ffff, 0x1234_5678] {
                for kind in 0..3 {
                    let vars: Vec<SnmpOid> = names.iter().map(|n| SnmpOid::from(n.clone())).collect();
                    let (pdu, tag, exp_body) = match kind {
                        0 => (SnmpPdu::GetRequest(SnmpGet { request_id: rid, vars }), 0xa0u8, body(rid, 0, 0, &names)),
                        1 => (SnmpPdu::GetNextRequest(SnmpGet { request_id: rid, vars }), 0xa1, body(rid, 0, 0, &names)),
                        _ => (SnmpPdu::GetBulkRequest(SnmpGetBulk { request_id: rid, non_repeaters: 0, max_repetitions: 20 + si as i64, vars }), 0xa5, body(rid, 0, 20 + si as i64, &names)),
                    };
                    let exp_pdu = tlv(tag, &exp_body);
                    if exp_pdu.len() > 3900 {
                        continue;
                    }
                    // the PDU alone, and in front of octets already in the buffer
                    for pre in [0usize, 8, 16] {
                        let mut b = Buffer::default();
                        b.push(&vec![0xeeu8; pre]).unwrap();
                        pdu.push_ber(&mut b).unwrap();
                        assert_eq!(&b.data()[..b.len() - pre], &exp_pdu[..], "PDU kind {} shape {:?} rid {} with {} octets already in the buffer", kind, shape, rid, pre);
                        assert!(b.data()[b.len() - pre..].iter().all(|&x| x == 0xee));
                    }
                    // the whole v2c / v1 message
                    let mut inner = int(1);
                    inner.extend_from_slice(&tlv(4, b"public"));
                    inner.extend_from_slice(&exp_pdu);
                    let mut b = Buffer::default();
                    SnmpV2cMessage { community: b"public", pdu }.push_ber(&mut b).unwrap();
                    assert_eq!(b.data(), &tlv(0x30, &inner)[..], "v2c message kind {} shape {:?} rid {}", kind, shape, rid);
                }
            }
        }
    }
}
