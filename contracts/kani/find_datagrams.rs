// @append-to: src/snmp/msg/mod.rs
// Native bounded stand-ins for the datagram decoders and the v3 encoders, used only behind a failed / undecided obligation (a
// function whose proof text no longer applies to its changed body). Everything is built by an independent forward encoder.
//  * finder_datagrams_never_panic (C01): 14 well-formed datagrams (v1 / v2c / v3 plaintext / v3 encrypted; responses carrying every
//    value type, exception values and RELATIVE-OID names; Get / GetNext / GetBulk requests; a Report), every prefix of each, and every
//    single-octet replacement by 00 01 7f 80 81 82 84 ff and octet^0x20, through all three message decoders: no panic.
//  * finder_request_decode (C15 / C16): Get / GetNext / GetBulk request PDUs decode to the fields that were put in.
//  * finder_v3_encoders (C03 / C08 / C09 / C11 / C15 / C17): SnmpV3Message::push_ber (USM parameters, scoped PDU, header flags,
//    plaintext and encrypted payload) against the independent encoder, also pushed in front of octets already in the buffer.
#[cfg(test)]
mod verif_find_datagrams {
    use super::v3::{MsgData, ScopedPdu, UsmParameters};
    use super::*;
    use crate::ber::{BerEncoder, SnmpOid};
    use crate::buf::Buffer;
    use crate::snmp::get::SnmpGet;
    use crate::snmp::getbulk::SnmpGetBulk;
    fn tlv(tag: u8, c: &[u8]) -> Vec<u8> {
        let mut o = vec![tag];
        let n = c.len();
        if n < 128 {
            o.push(n as u8);
        } else if n < 256 {
            o.extend_from_slice(&[0x81, n as u8]);
        } else {
            o.extend_from_slice(&[0x82, (n >> 8) as u8, n as u8]);
        }
        o.extend_from_slice(c);
        o
    }
    fn cat(parts: &[Vec<u8>]) -> Vec<u8> {
        parts.iter().flat_map(|p| p.iter().copied()).collect()
    }
    fn int(v: i64) -> Vec<u8> {
        let mut b = v.to_be_bytes().to_vec();
        while b.len() > 1 && ((b[0] == 0 && b[1] < 0x80) || (b[0] == 0xff && b[1] >= 0x80)) {
            b.remove(0);
        }
        tlv(2, &b)
    }
    const NAME: [u8; 8] = [0x2b, 6, 1, 2, 1, 1, 3, 0];
    fn varbind(name_tag: u8, name: &[u8], value: Vec<u8>) -> Vec<u8> {
        tlv(0x30, &cat(&[tlv(name_tag, name), value]))
    }
    fn pdu(tag: u8, rid: i64, f1: i64, f2: i64, vbs: &[Vec<u8>]) -> Vec<u8> {
        tlv(tag, &cat(&[int(rid), int(f1), int(f2), tlv(0x30, &cat(vbs))]))
    }
    fn every_value() -> Vec<Vec<u8>> {
        vec![
            varbind(6, &NAME, tlv(0x01, &[0xff])),                       // BOOLEAN
            varbind(6, &NAME, tlv(0x02, &[0x12, 0x34])),                 // INTEGER
            varbind(6, &NAME, tlv(0x05, &[])),                           // NULL
            varbind(6, &NAME, tlv(0x04, b"octets")),                     // OCTET STRING
            varbind(6, &NAME, tlv(0x06, &[0x2b, 6, 1, 0x81, 0x00])),     // OBJECT IDENTIFIER
            varbind(6, &NAME, tlv(0x07, b"descr")),                      // ObjectDescriptor
            varbind(6, &NAME, tlv(0x09, &[0x80, 0x01, 0x03])),           // REAL, binary
            varbind(6, &NAME, tlv(0x09, &[0x03, b'1', b'.', b'5', b'E', b'2'])), // REAL, decimal
            varbind(6, &NAME, tlv(0x40, &[10, 0, 0, 1])),                // IpAddress
            varbind(6, &NAME, tlv(0x41, &[0x01, 0x02])),                 // Counter32
            varbind(6, &NAME, tlv(0x42, &[0x00, 0xff, 0xff])),           // Gauge32
            varbind(6, &NAME, tlv(0x43, &[0x05])),                       // TimeTicks
            varbind(6, &NAME, tlv(0x44, &[0x9f, 0x78, 0x04, 0x3f, 0x80, 0, 0])), // Opaque
            varbind(6, &NAME, tlv(0x46, &[1, 2, 3, 4, 5, 6, 7, 8])),     // Counter64
            varbind(6, &NAME, tlv(0x47, &[0x7f])),                       // UInteger32
        ]
    }
    fn v3(flags: u8, usm: &[Vec<u8>], data: Vec<u8>, msg_id: i64) -> Vec<u8> {
        let header = tlv(0x30, &cat(&[int(msg_id), int(2048), tlv(0x04, &[flags]), int(3)]));
        tlv(0x30, &cat(&[int(3), header, tlv(0x04, &tlv(0x30, &cat(usm))), data]))
    }
    fn usm(engine: &[u8], boots: i64, time: i64, user: &[u8], auth: &[u8], privp: &[u8]) -> Vec<Vec<u8>> {
        vec![tlv(4, engine), int(boots), int(time), tlv(4, user), tlv(4, auth), tlv(4, privp)]
    }
    fn corpus() -> Vec<Vec<u8>> {
        let resp = pdu(0xa2, 0x1234, 0, 0, &every_value());
        let exc = pdu(0xa2, 7, 0, 0, &[
            varbind(6, &NAME, tlv(0x80, &[])), varbind(6, &NAME, tlv(0x81, &[])), varbind(6, &NAME, tlv(0x82, &[])),
        ]);
        let rel = pdu(0xa2, 8, 0, 0, &[
            varbind(6, &NAME, tlv(0x43, &[1])), varbind(0x0d, &[4, 0], tlv(0x43, &[2])), varbind(0x0d, &[1, 3, 6, 1, 4, 1], tlv(0x43, &[3])),
            varbind(0x0d, &[0x81, 0x00, 5], tlv(0x43, &[4])),
        ]);
        let err = pdu(0xa2, 9, 2, 1, &[varbind(6, &NAME, tlv(0x05, &[]))]);
        let empty = pdu(0xa2, 10, 0, 0, &[]);
        let get = pdu(0xa0, 11, 0, 0, &[varbind(6, &NAME, tlv(5, &[]))]);
        let getnext = pdu(0xa1, 12, 0, 0, &[varbind(6, &NAME, tlv(5, &[])), varbind(6, &[0x2b, 6], tlv(5, &[]))]);
        let getbulk = pdu(0xa5, 13, 0, 20, &[varbind(6, &NAME, tlv(5, &[]))]);
        let report = pdu(0xa8, 14, 0, 0, &[varbind(6, &[0x2b, 6, 1, 6, 3, 15, 1, 1, 4, 0], tlv(0x41, &[1]))]);
        let community = |ver: i64, p: &Vec<u8>| tlv(0x30, &cat(&[int(ver), tlv(4, b"public"), p.clone()]));
        let scoped = |p: &Vec<u8>| tlv(0x30, &cat(&[tlv(4, b"ctx-engine"), tlv(4, b""), p.clone()]));
        let u = usm(b"\x80\x00\x1f\x88\x80engine", 3, 0x01_0000, b"user", &[9; 12], &[8; 8]);
        vec![
            community(0, &resp), community(1, &resp), community(1, &exc), community(1, &rel), community(0, &err), community(1, &empty),
            community(1, &get), community(1, &getnext), community(1, &getbulk),
            v3(0, &usm(b"", 0, 0, b"", b"", b""), scoped(&report), 1),
            v3(1, &u, scoped(&resp), 0x7fff_ffff),
            v3(3, &u, tlv(4, &[0xaa; 40]), 2),
            v3(4, &u, scoped(&report), 3),
            v3(1, &u, scoped(&rel), 4),
        ]
    }
    fn decode_all(d: &[u8]) {
        let _ = SnmpV1Message::try_from(d);
        let _ = SnmpV2cMessage::try_from(d);
        let _ = SnmpV3Message::try_from(d);
    }
    #[test]
    fn finder_datagrams_never_panic() {
        let c = corpus();
        assert_eq!(c.len(), 14);
        // the corpus is what it claims to be: each datagram is accepted by the decoder of its version
        let mut accepted = 0;
        for d in c.iter() {
            if SnmpV1Message::try_from(d.as_slice()).is_ok() || SnmpV2cMessage::try_from(d.as_slice()).is_ok() || SnmpV3Message::try_from(d.as_slice()).is_ok() {
                accepted += 1;
            }
        }
        assert_eq!(accepted, c.len(), "every datagram of the corpus must be well-formed for one decoder");
        for d in c.iter() {
            for k in 0..d.len() {
                decode_all(&d[..k]);
            }
            for i in 0..d.len() {
                for r in [0x00u8, 0x01, 0x7f, 0x80, 0x81, 0x82, 0x84, 0xff, d[i] ^ 0x20] {
                    if r == d[i] {
                        continue;
                    }
                    let mut m = d.clone();
                    m[i] = r;
                    decode_all(&m);
                }
            }
        }
    }
    #[test]
    fn finder_request_decode() {
        let names: Vec<Vec<u8>> = vec![NAME.to_vec(), vec![0x2b, 6], vec![0x2b, 6, 1, 4, 1, 0x81, 0x80, 0x00, 1], (0..130).map(|k| (k % 100) as u8 + 1).collect()];
        for n in 0..=names.len() {
            let vbs: Vec<Vec<u8>> = names[..n].iter().map(|x| varbind(6, x, tlv(5, &[]))).collect();
            for rid in [0i64, 1, 0x7f, 0x80, 0x1234_5678, 0x7fff_ffff] {
                for (tag, f1, f2) in [(0xa0u8, 0i64, 0i64), (0xa1, 0, 0), (0xa5, 0, 10), (0xa5, 2, 0x7fff)] {
                    let d = pdu(tag, rid, f1, f2, &vbs);
                    match SnmpPdu::try_from(d.as_slice()).expect("a well-formed request must decode") {
                        SnmpPdu::GetRequest(g) if tag == 0xa0 => {
                            assert_eq!(g.request_id, rid);
                            assert_eq!(g.vars.iter().map(|v| v.0.to_vec()).collect::<Vec<_>>(), names[..n].to_vec());
                        }
                        SnmpPdu::GetNextRequest(g) if tag == 0xa1 => {
                            assert_eq!(g.request_id, rid);
                            assert_eq!(g.vars.iter().map(|v| v.0.to_vec()).collect::<Vec<_>>(), names[..n].to_vec());
                        }
                        SnmpPdu::GetBulkRequest(g) if tag == 0xa5 => {
                            assert_eq!((g.request_id, g.non_repeaters, g.max_repetitions), (rid, f1, f2));
                            assert_eq!(g.vars.iter().map(|v| v.0.to_vec()).collect::<Vec<_>>(), names[..n].to_vec());
                        }
                        _ => panic!("request tag {:02x} decoded as another PDU type", tag),
                    }
                    // nothing may follow the varbind list inside the PDU
                    let mut body = cat(&[int(rid), int(f1), int(f2), tlv(0x30, &cat(&vbs))]);
                    body.extend_from_slice(&[5, 0]);
                    assert!(SnmpPdu::try_from(tlv(tag, &body).as_slice()).is_err(), "octets after the varbind list accepted");
                }
            }
        }
    }
    #[test]
    fn finder_v3_encoders() {
        let engine: Vec<u8> = b"\x80\x00\x1f\x88\x80engine".to_vec();
        let long_user: Vec<u8> = vec![b'u'; 32];
        for (eng, user) in [(&b""[..], &b""[..]), (&engine[..], &b"user"[..]), (&engine[..], &long_user[..])] {
            for (boots, time) in [(0i64, 0i64), (1, 127), (128, 0x7fff_ffff), (0x1234, 0x8000)] {
                for (auth, privp) in [(&[][..], &[][..]), (&[0u8; 12][..], &[][..]), (&[7u8; 12][..], &[8u8; 8][..])] {
                    for flags in 0u8..8 {
                        for msg_id in [0i64, 0x7f, 0x80, 37320, 0x7fff_ffff] {
                            for n in [0usize, 1, 3] {
                                for encrypted in [false, true] {
                                    let names: Vec<Vec<u8>> = (0..n).map(|k| vec![0x2b, 6, 1, 2, 1, k as u8 + 1, 0x81, 0x00]).collect();
                                    let vbs: Vec<Vec<u8>> = names.iter().map(|x| varbind(6, x, tlv(5, &[]))).collect();
                                    let p = pdu(0xa0, msg_id, 0, 0, &vbs);
                                    let cipher = vec![0xc3u8; 24];
                                    let scoped = tlv(0x30, &cat(&[tlv(4, eng), tlv(4, b""), p]));
                                    let data = if encrypted { tlv(4, &cipher) } else { scoped.clone() };
                                    let want = v3(flags, &usm(eng, boots, time, user, auth, privp), data, msg_id);
                                    let mk_scoped = || ScopedPdu {
                                        engine_id: eng,
                                        pdu: SnmpPdu::GetRequest(SnmpGet { request_id: msg_id, vars: names.iter().map(|x| SnmpOid::from(x.clone())).collect() }),
                                    };
                                    let msg = SnmpV3Message {
                                        msg_id,
                                        flag_auth: flags & 1 != 0,
                                        flag_priv: flags & 2 != 0,
                                        flag_report: flags & 4 != 0,
                                        usm: UsmParameters { engine_id: eng, engine_boots: boots, engine_time: time, user_name: user, auth_params: auth, privacy_params: privp },
                                        data: if encrypted { MsgData::Encrypted(&cipher) } else { MsgData::Plaintext(mk_scoped()) },
                                    };
                                    // the message goes into an empty buffer (the sockets reset it first)
                                    let mut buf = Buffer::default();
                                    msg.push_ber(&mut buf).unwrap();
                                    assert_eq!(buf.data(), &want[..], "v3 message image (flags {}, msg_id {}, {} names, encrypted {})", flags, msg_id, n, encrypted);
                                    // the scoped PDU alone is pushed in front of the padding by the privacy layer
                                    if !encrypted && flags == 0 {
                                        for prefix in [0usize, 8, 16] {
                                            let mut buf = Buffer::default();
                                            buf.push(&vec![0xeeu8; prefix]).unwrap();
                                            mk_scoped().push_ber(&mut buf).unwrap();
                                            let got = buf.data();
                                            assert!(got.len() == scoped.len() + prefix && got[..scoped.len()] == scoped[..] && got[scoped.len()..].iter().all(|x| *x == 0xee),
                                                "scoped PDU image ({} names, {} octets already in the buffer): {:02x?} != {:02x?}", n, prefix, got, scoped);
                                        }
                                    }
                                }
                            }
                        }
                    }
                }
            }
        }
        // GetBulk inside a scoped PDU
        let p = pdu(0xa5, 5, 0, 25, &[varbind(6, &NAME, tlv(5, &[]))]);
        let want = v3(4, &usm(b"e", 1, 2, b"u", b"", b""), tlv(0x30, &cat(&[tlv(4, b"e"), tlv(4, b""), p])), 5);
        let msg = SnmpV3Message {
            msg_id: 5, flag_auth: false, flag_priv: false, flag_report: true,
            usm: UsmParameters { engine_id: b"e", engine_boots: 1, engine_time: 2, user_name: b"u", auth_params: b"", privacy_params: b"" },
            data: MsgData::Plaintext(ScopedPdu { engine_id: b"e", pdu: SnmpPdu::GetBulkRequest(SnmpGetBulk { request_id: 5, non_repeaters: 0, max_repetitions: 25, vars: vec![SnmpOid::from(NAME.to_vec())] }) }),
        };
        let mut buf = Buffer::default();
        msg.push_ber(&mut buf).unwrap();
        assert_eq!(buf.data(), &want[..]);
    }
}
