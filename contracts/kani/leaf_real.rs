// @append-to: src/ber/real.rs
// Bounded stand-ins for SnmpReal::decode restricted to the binary and special-value forms
// (first contents octet with bit 8 or bit 7 set; contents <= 6 octets). The decimal forms reach only
// `&i[1..]` (in bounds: the contents are non-empty) and the std functions from_utf8 / str::parse,
// whose unrolling exhausts CBMC here. NOT counted as proved.
#[cfg(kani)]
mod verif_leaf_real {
    use super::*;
    use crate::ber::BerClass;
    fn hdr(len: usize) -> BerHeader {
        BerHeader { class: BerClass::Universal, constructed: false, tag: TAG_REAL, length: len }
    }
    #[kani::proof]
    #[kani::unwind(10)]
    fn bounded_real_total() {
        let a: [u8; 8] = kani::any();
        let len: usize = kani::any();
        kani::assume(len <= 6);
        kani::assume(a[0] & 0xc0 != 0);
        let _ = SnmpReal::decode(&a, &hdr(len));
        kani::cover!(len == 3 && a[0] == 0x80);
    }
    #[kani::proof]
    #[kani::unwind(10)]
    fn bounded_real_extent() {
        let a: [u8; 8] = kani::any();
        let b: [u8; 8] = kani::any();
        let len: usize = kani::any();
        kani::assume(len <= 6);
        kani::assume(a[0] & 0xc0 != 0);
        let mut k = 0;
        while k < len {
            kani::assume(a[k] == b[k]);
            k += 1;
        }
        let ra = SnmpReal::decode(&a, &hdr(len));
        let rb = SnmpReal::decode(&b, &hdr(len));
        match (ra, rb) {
            (Ok(x), Ok(y)) => assert!(x.0.to_bits() == y.0.to_bits()),
            (Err(_), Err(_)) => {}
            _ => assert!(false),
        }
    }
}
