// C15 (completeness half of the round trip): what the forward spec encoders (enc_spec) write satisfies the ACCEPTANCE
// predicates of the decode contracts (ber_spec::*_acc, names_acc, get_acc / bulk_acc, pdu_acc, msg_acc). Together with the
// decoders' clauses `X_acc(i) ==> r is Ok` (unit decoders) and the encoders' clauses `written == enc(..)` (unit codec) this
// says: the library's own decoder never refuses a request message the library wrote; roundtrip_glue says what it then returns.
pub mod accept_spec {
    use vstd::prelude::*;
    use crate::ber_spec::*;
    use crate::enc_spec::*;
    use crate::roundtrip_spec::*;
    use crate::buf::tag_len_bytes;

    // the contents of an OBJECT IDENTIFIER are whole sub-identifiers (X.690 §8.19.2) — what text -> OID produces (unit oidtext)
    pub open spec fn whole(o: Seq<u8>) -> bool { o.len() == 0 || o.last() < 128 }
    pub open spec fn names_whole(names: Seq<Seq<u8>>) -> bool {
        forall|j: int| 0 <= j < names.len() ==> whole(#[trigger] names[j])
    }

    pub proof fn lemma_tlv_first(tag: u8, c: Seq<u8>, rest: Seq<u8>)
        ensures (tlv(tag, c) + rest)[0] == tag
    {
        let h = tag_len_bytes(tag, c.len());
        assert((tlv(tag, c) + rest) =~= h + (c + rest));
        assert(h[0] == tag);
    }

    pub proof fn lemma_int_accepted(x: i64, rest: Seq<u8>)
        ensures int_acc(enc_int(x as int) + rest)
    {
        lemma_i64_roundtrip(x);
        lemma_tlv_first(2, int_octets(x as int), rest);
        lemma_tlv_reads_back(2, int_octets(x as int), rest);
    }

    pub proof fn lemma_octets_accepted(o: Seq<u8>, rest: Seq<u8>)
        requires o.len() <= 65535
        ensures octets_acc(enc_octets(o) + rest)
    {
        lemma_tlv_first(4, o, rest);
        lemma_tlv_reads_back(4, o, rest);
    }

    pub proof fn lemma_seq_accepted(c: Seq<u8>, rest: Seq<u8>)
        requires c.len() <= 65535
        ensures seq_acc(tlv(0x30, c) + rest)
    {
        lemma_tlv_first(0x30, c, rest);
        lemma_tlv_reads_back(0x30, c, rest);
    }

    // VarBind ::= SEQUENCE { name, NULL } as the request encoders write it
    pub proof fn lemma_varbind_accepted(name: Seq<u8>, rest: Seq<u8>)
        requires name.len() <= 65529, whole(name)
        ensures crate::snmp::getresponse::name_acc(enc_varbind(name) + rest)
    {
        let inner = enc_oid(name) + enc_null();
        lemma_tlv_len(6, name);
        lemma_seq_accepted(inner, rest);
        lemma_tlv_reads_back(0x30, inner, rest);
        lemma_tlv_first(6, name, enc_null());
        lemma_tlv_reads_back(6, name, enc_null());
        assert(enc_null() =~= tlv(5, Seq::<u8>::empty()) + Seq::<u8>::empty());
        lemma_tlv_first(5, Seq::<u8>::empty(), Seq::<u8>::empty());
        lemma_tlv_reads_back(5, Seq::<u8>::empty(), Seq::<u8>::empty());
    }

    pub proof fn lemma_varbinds_accepted(names: Seq<Seq<u8>>)
        requires names_fit(names), names_whole(names)
        ensures crate::snmp::getresponse::names_acc(enc_varbinds(names))
        decreases names.len()
    {
        if names.len() == 0 {
        } else {
            let tl = names.subrange(1, names.len() as int);
            assert forall|j: int| 0 <= j < tl.len() implies (#[trigger] tl[j]).len() <= 65529 && whole(tl[j]) by {
                assert(tl[j] == names[j + 1]);
            }
            lemma_varbinds_accepted(tl);
            let e = enc_varbind(names[0]) + enc_varbinds(tl);
            assert(enc_varbinds(names) == e);
            lemma_varbind_accepted(names[0], enc_varbinds(tl));
            lemma_varbind_reads_back(names[0], enc_varbinds(tl));
            lemma_tlv_len(0x30, enc_oid(names[0]) + enc_null());
            assert(spec_rest(e) == enc_varbinds(tl));
            assert(spec_rest(e).len() < e.len());
        }
    }

    // PDU bodies of the requests the library emits
    pub proof fn lemma_bulk_body_accepted(rid: i64, f1: i64, f2: i64, names: Seq<Seq<u8>>)
        requires enc_varbinds(names).len() <= 65535, names_fit(names), names_whole(names)
        ensures crate::snmp::getbulk::bulk_acc(enc_pdu_body(rid as int, f1 as int, f2 as int, names))
    {
        let l = tlv(0x30, enc_varbinds(names));
        let b = enc_pdu_body(rid as int, f1 as int, f2 as int, names);
        assert(b =~= enc_int(rid as int) + (enc_int(f1 as int) + (enc_int(f2 as int) + l)));
        lemma_int_accepted(rid, enc_int(f1 as int) + (enc_int(f2 as int) + l));
        lemma_enc_int_reads_back(rid, enc_int(f1 as int) + (enc_int(f2 as int) + l));
        lemma_int_accepted(f1, enc_int(f2 as int) + l);
        lemma_enc_int_reads_back(f1, enc_int(f2 as int) + l);
        lemma_int_accepted(f2, l);
        lemma_enc_int_reads_back(f2, l);
        assert(l =~= l + Seq::<u8>::empty());
        lemma_seq_accepted(enc_varbinds(names), Seq::<u8>::empty());
        lemma_tlv_reads_back(0x30, enc_varbinds(names), Seq::<u8>::empty());
        lemma_varbinds_accepted(names);
    }

    pub proof fn lemma_get_body_accepted(rid: i64, names: Seq<Seq<u8>>)
        requires enc_varbinds(names).len() <= 65535, names_fit(names), names_whole(names)
        ensures crate::snmp::get::get_acc(enc_pdu_body(rid as int, 0, 0, names))
    {
        lemma_bulk_body_accepted(rid, 0i64, 0i64, names);
        lemma_pdu_body_reads_back(rid, 0i64, 0i64, names);
    }

    // a request PDU: tag 0xa0 Get, 0xa1 GetNext, 0xa5 GetBulk
    pub proof fn lemma_request_pdu_accepted(tag: u8, rid: i64, f1: i64, f2: i64, names: Seq<Seq<u8>>, rest: Seq<u8>)
        requires
            (tag == 0xa0 || tag == 0xa1) && f1 == 0 && f2 == 0 || tag == 0xa5,
            enc_varbinds(names).len() <= 65535, names_fit(names), names_whole(names),
            enc_pdu_body(rid as int, f1 as int, f2 as int, names).len() <= 65535,
        ensures crate::snmp::pdu::pdu_acc(tlv(tag, enc_pdu_body(rid as int, f1 as int, f2 as int, names)) + rest)
    {
        let body = enc_pdu_body(rid as int, f1 as int, f2 as int, names);
        lemma_tlv_first(tag, body, rest);
        lemma_tlv_reads_back(tag, body, rest);
        lemma_tlv_len(tag, body);
        lemma_i64_roundtrip(rid);
        lemma_tlv_len(2, int_octets(rid as int));
        if tag == 0xa5 { lemma_bulk_body_accepted(rid, f1, f2, names); } else { lemma_get_body_accepted(rid, names); }
    }

    // THEOREM (v1 / v2c; v3 below): the community message the encoders write is one the decoder must accept
    pub proof fn theorem_v2c_request_accepted(community: Seq<u8>, tag: u8, rid: i64, f1: i64, f2: i64, names: Seq<Seq<u8>>)
        requires
            (tag == 0xa0 || tag == 0xa1) && f1 == 0 && f2 == 0 || tag == 0xa5,
            names_fit(names), names_whole(names),
            enc_community_msg(1, community, tlv(tag, enc_pdu_body(rid as int, f1 as int, f2 as int, names))).len() <= 65535,
        ensures crate::snmp::msg::v2c::msg_acc(enc_community_msg(1, community, tlv(tag, enc_pdu_body(rid as int, f1 as int, f2 as int, names))))
    {
        // the readers are used through the reads_back lemmas only: their bodies stay folded (keeps the query small and stable)
        hide(spec_header);
        hide(spec_content);
        hide(spec_rest);
        let body = enc_pdu_body(rid as int, f1 as int, f2 as int, names);
        let pdu = tlv(tag, body);
        let inner = enc_int(1) + enc_octets(community) + pdu;
        lemma_tlv_reads_back(0x30, inner, Seq::<u8>::empty());
        lemma_tlv_reads_back(4, community, pdu);
        lemma_tlv_len(0x30, inner);
        lemma_tlv_len(4, community);
        lemma_tlv_len(tag, body);
        lemma_tlv_len(0x30, enc_varbinds(names));
        let m = enc_community_msg(1, community, pdu);
        assert(m =~= tlv(0x30, inner) + Seq::<u8>::empty());
        lemma_seq_accepted(inner, Seq::<u8>::empty());
        lemma_community_msg_reads_back(1i64, community, pdu);
        assert(inner =~= enc_int(1) + (enc_octets(community) + pdu));
        lemma_int_accepted(1i64, enc_octets(community) + pdu);
        lemma_enc_int_reads_back(1i64, enc_octets(community) + pdu);
        lemma_octets_accepted(community, pdu);
        assert(pdu =~= pdu + Seq::<u8>::empty());
        lemma_request_pdu_accepted(tag, rid, f1, f2, names, Seq::<u8>::empty());
    }

    pub proof fn theorem_v1_request_accepted(community: Seq<u8>, tag: u8, rid: i64, names: Seq<Seq<u8>>)
        requires
            tag == 0xa0 || tag == 0xa1,
            names_fit(names), names_whole(names),
            enc_community_msg(0, community, tlv(tag, enc_pdu_body(rid as int, 0, 0, names))).len() <= 65535,
        ensures crate::snmp::msg::v1::msg_acc(enc_community_msg(0, community, tlv(tag, enc_pdu_body(rid as int, 0, 0, names))))
    {
        // the readers are used through the reads_back lemmas only: their bodies stay folded (keeps the query small and stable)
        hide(spec_header);
        hide(spec_content);
        hide(spec_rest);
        let body = enc_pdu_body(rid as int, 0, 0, names);
        let pdu = tlv(tag, body);
        let inner = enc_int(0) + enc_octets(community) + pdu;
        lemma_tlv_reads_back(0x30, inner, Seq::<u8>::empty());
        lemma_tlv_reads_back(4, community, pdu);
        lemma_tlv_len(0x30, inner);
        lemma_tlv_len(4, community);
        lemma_tlv_len(tag, body);
        lemma_tlv_len(0x30, enc_varbinds(names));
        let m = enc_community_msg(0, community, pdu);
        assert(m =~= tlv(0x30, inner) + Seq::<u8>::empty());
        lemma_seq_accepted(inner, Seq::<u8>::empty());
        lemma_community_msg_reads_back(0i64, community, pdu);
        assert(inner =~= enc_int(0) + (enc_octets(community) + pdu));
        lemma_int_accepted(0i64, enc_octets(community) + pdu);
        lemma_enc_int_reads_back(0i64, enc_octets(community) + pdu);
        lemma_octets_accepted(community, pdu);
        assert(pdu =~= pdu + Seq::<u8>::empty());
        lemma_request_pdu_accepted(tag, rid, 0i64, 0i64, names, Seq::<u8>::empty());
    }

    // ---- v3 layers
    pub proof fn lemma_usm_accepted(engine_id: Seq<u8>, boots: i64, time: i64, user: Seq<u8>, auth: Seq<u8>, privp: Seq<u8>)
        requires
            engine_id.len() <= 65535, user.len() <= 65535, auth.len() <= 65535, privp.len() <= 65535,
            (enc_octets(engine_id) + enc_int(boots as int) + enc_int(time as int) + enc_octets(user) + enc_octets(auth) + enc_octets(privp)).len() <= 65535,
        ensures crate::snmp::msg::v3::usm::usm_acc(enc_usm(engine_id, boots as int, time as int, user, auth, privp))
    {
        hide(spec_header);
        hide(spec_content);
        hide(spec_rest);
        let p5 = enc_octets(privp);
        let p4 = enc_octets(auth) + p5;
        let p3 = enc_octets(user) + p4;
        let p2 = enc_int(time as int) + p3;
        let p1 = enc_int(boots as int) + p2;
        let inner = enc_octets(engine_id) + enc_int(boots as int) + enc_int(time as int) + enc_octets(user) + enc_octets(auth) + enc_octets(privp);
        assert(inner =~= enc_octets(engine_id) + p1);
        let u = enc_usm(engine_id, boots as int, time as int, user, auth, privp);
        assert(u =~= tlv(0x30, inner) + Seq::<u8>::empty());
        lemma_seq_accepted(inner, Seq::<u8>::empty());
        lemma_tlv_reads_back(0x30, inner, Seq::<u8>::empty());
        lemma_octets_accepted(engine_id, p1);
        lemma_tlv_reads_back(4, engine_id, p1);
        lemma_int_accepted(boots, p2);
        lemma_enc_int_reads_back(boots, p2);
        lemma_int_accepted(time, p3);
        lemma_enc_int_reads_back(time, p3);
        lemma_octets_accepted(user, p4);
        lemma_tlv_reads_back(4, user, p4);
        lemma_octets_accepted(auth, p5);
        lemma_tlv_reads_back(4, auth, p5);
        assert(p5 =~= tlv(4, privp) + Seq::<u8>::empty());
        lemma_octets_accepted(privp, Seq::<u8>::empty());
    }

    // plaintext ScopedPDU carrying a request PDU, followed by anything (cipher padding)
    pub proof fn lemma_scoped_accepted(engine_id: Seq<u8>, pdu: Seq<u8>, pad: Seq<u8>)
        requires
            engine_id.len() <= 65535, (enc_octets(engine_id) + enc_octets(Seq::<u8>::empty()) + pdu).len() <= 65535,
            crate::snmp::pdu::pdu_acc(pdu),
        ensures crate::snmp::msg::v3::scoped::scoped_acc(enc_scoped(engine_id, pdu) + pad)
    {
        hide(spec_header);
        hide(spec_content);
        hide(spec_rest);
        let e = Seq::<u8>::empty();
        let inner = enc_octets(engine_id) + enc_octets(e) + pdu;
        lemma_seq_accepted(inner, pad);
        lemma_tlv_reads_back(0x30, inner, pad);
        assert(inner =~= enc_octets(engine_id) + (enc_octets(e) + pdu));
        lemma_octets_accepted(engine_id, enc_octets(e) + pdu);
        lemma_tlv_reads_back(4, engine_id, enc_octets(e) + pdu);
        lemma_octets_accepted(e, pdu);
        lemma_tlv_reads_back(4, e, pdu);
    }

    // THEOREM (v3): the SNMPv3Message image is accepted whenever its USM parameters and msgData are
    pub proof fn theorem_v3_message_accepted(msg_id: i64, flags: u8, usm: Seq<u8>, data: Seq<u8>)
        requires
            usm.len() <= 65535,
            (enc_int(3) + tlv(0x30, enc_int(msg_id as int) + enc_int(2048) + tlv(4, seq![flags]) + enc_int(3)) + tlv(4, usm) + data).len() <= 65535,
            crate::snmp::msg::v3::usm::usm_acc(usm),
            crate::snmp::msg::v3::data::data_acc(data),
        ensures crate::snmp::msg::v3::msg::v3_acc(enc_v3(msg_id as int, flags, usm, data))
    {
        hide(spec_header);
        hide(spec_content);
        hide(spec_rest);
        let g = enc_int(msg_id as int) + enc_int(2048) + tlv(4, seq![flags]) + enc_int(3);
        let inner = enc_int(3) + tlv(0x30, g) + tlv(4, usm) + data;
        let m = enc_v3(msg_id as int, flags, usm, data);
        assert(m =~= tlv(0x30, inner) + Seq::<u8>::empty());
        lemma_seq_accepted(inner, Seq::<u8>::empty());
        lemma_tlv_reads_back(0x30, inner, Seq::<u8>::empty());
        assert(inner =~= enc_int(3) + (tlv(0x30, g) + (tlv(4, usm) + data)));
        lemma_int_accepted(3i64, tlv(0x30, g) + (tlv(4, usm) + data));
        lemma_enc_int_reads_back(3i64, tlv(0x30, g) + (tlv(4, usm) + data));
        lemma_tlv_len(2, int_octets(msg_id as int));
        lemma_tlv_len(2, int_octets(2048));
        lemma_tlv_len(2, int_octets(3));
        lemma_i64_roundtrip(msg_id);
        lemma_i64_roundtrip(2048i64);
        lemma_i64_roundtrip(3i64);
        lemma_seq_accepted(g, tlv(4, usm) + data);
        lemma_tlv_reads_back(0x30, g, tlv(4, usm) + data);
        let t3 = enc_int(3);
        let t2 = tlv(4, seq![flags]) + t3;
        let t1 = enc_int(2048) + t2;
        assert(g =~= enc_int(msg_id as int) + t1);
        lemma_int_accepted(msg_id, t1);
        lemma_enc_int_reads_back(msg_id, t1);
        lemma_int_accepted(2048i64, t2);
        lemma_enc_int_reads_back(2048i64, t2);
        lemma_octets_accepted(seq![flags], t3);
        lemma_tlv_reads_back(4, seq![flags], t3);
        assert(t3 =~= enc_int(3) + Seq::<u8>::empty());
        lemma_int_accepted(3i64, Seq::<u8>::empty());
        lemma_enc_int_reads_back(3i64, Seq::<u8>::empty());
        lemma_octets_accepted(usm, data);
        lemma_tlv_reads_back(4, usm, data);
    }

    // THEOREM (v3, as the library emits it): USM parameters from the encoder, msgData either the plaintext ScopedPDU of a request
    // or an OCTET STRING of ciphertext
    pub proof fn theorem_v3_request_accepted(msg_id: i64, flags: u8, engine_id: Seq<u8>, boots: i64, time: i64, user: Seq<u8>, auth: Seq<u8>,
                                             privp: Seq<u8>, ctx: Seq<u8>, tag: u8, rid: i64, f1: i64, f2: i64, names: Seq<Seq<u8>>, ct: Seq<u8>, encrypted: bool)
        requires
            (tag == 0xa0 || tag == 0xa1) && f1 == 0 && f2 == 0 || tag == 0xa5,
            names_fit(names), names_whole(names),
            engine_id.len() <= 65535, user.len() <= 65535, auth.len() <= 65535, privp.len() <= 65535, ctx.len() <= 65535, ct.len() <= 65535,
            enc_v3(msg_id as int, flags, enc_usm(engine_id, boots as int, time as int, user, auth, privp),
                   if encrypted { enc_octets(ct) } else { enc_scoped(ctx, tlv(tag, enc_pdu_body(rid as int, f1 as int, f2 as int, names))) }).len() <= 65535,
        ensures
            crate::snmp::msg::v3::msg::v3_acc(enc_v3(msg_id as int, flags, enc_usm(engine_id, boots as int, time as int, user, auth, privp),
                   if encrypted { enc_octets(ct) } else { enc_scoped(ctx, tlv(tag, enc_pdu_body(rid as int, f1 as int, f2 as int, names))) })),
    {
        let usm = enc_usm(engine_id, boots as int, time as int, user, auth, privp);
        let body = enc_pdu_body(rid as int, f1 as int, f2 as int, names);
        let pdu = tlv(tag, body);
        let data = if encrypted { enc_octets(ct) } else { enc_scoped(ctx, pdu) };
        let uin = enc_octets(engine_id) + enc_int(boots as int) + enc_int(time as int) + enc_octets(user) + enc_octets(auth) + enc_octets(privp);
        let g = enc_int(msg_id as int) + enc_int(2048) + tlv(4, seq![flags]) + enc_int(3);
        let inner = enc_int(3) + tlv(0x30, g) + tlv(4, usm) + data;
        // sizes: every part is shorter than the whole
        lemma_tlv_len(0x30, inner);
        lemma_tlv_len(0x30, g);
        lemma_tlv_len(4, usm);
        lemma_tlv_len(0x30, uin);
        lemma_usm_accepted(engine_id, boots, time, user, auth, privp);
        if encrypted {
            assert(enc_octets(ct) =~= enc_octets(ct) + Seq::<u8>::empty());
            lemma_octets_accepted(ct, Seq::<u8>::empty());
        } else {
            let sin = enc_octets(ctx) + enc_octets(Seq::<u8>::empty()) + pdu;
            lemma_tlv_len(0x30, sin);
            lemma_tlv_len(4, ctx);
            lemma_tlv_len(4, Seq::<u8>::empty());
            lemma_tlv_len(tag, body);
            lemma_tlv_len(0x30, enc_varbinds(names));
            assert(pdu =~= pdu + Seq::<u8>::empty());
            lemma_request_pdu_accepted(tag, rid, f1, f2, names, Seq::<u8>::empty());
            lemma_scoped_accepted(ctx, pdu, Seq::<u8>::empty());
            assert(enc_scoped(ctx, pdu) =~= enc_scoped(ctx, pdu) + Seq::<u8>::empty());
        }
        theorem_v3_message_accepted(msg_id, flags, usm, data);
    }
}
