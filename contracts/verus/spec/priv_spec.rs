// RFC 3414 §8.1.1 (DES-CBC: key = first 8 octets of the localized key, pre-IV = next 8, salt = boots || counter,
// IV = pre-IV xor salt, zero padding to a multiple of 8) and RFC 3826 §3.1 (AES-128-CFB: key = first 16 octets,
// IV = boots || time || 64-bit salt), written from the RFCs.
pub mod priv_spec {
    use vstd::prelude::*;

    pub use crate::stdspec::{be32, be64};
    pub open spec fn xor8(a: Seq<u8>, b: Seq<u8>) -> Seq<u8>
        recommends a.len() == 8, b.len() == 8
    {
        Seq::new(8, |i: int| a[i] ^ b[i])
    }
    // zero padding up to the next multiple of `block`
    pub open spec fn pad_len(n: nat, block: nat) -> nat
        recommends block > 0
    {
        if n % block == 0 { n } else { (n + block - n % block) as nat }
    }
    pub open spec fn zeros(n: nat) -> Seq<u8> { Seq::new(n, |i: int| 0u8) }
    pub open spec fn padded(p: Seq<u8>, block: nat) -> Seq<u8> {
        p + zeros((pad_len(p.len(), block) - p.len()) as nat)
    }
    pub open spec fn des_salt(boots: u32, counter: u32) -> Seq<u8> { be32(boots) + be32(counter) }
    pub open spec fn aes_iv(boots: u32, time: u32, salt: Seq<u8>) -> Seq<u8> { be32(boots) + be32(time) + salt }

    // a counter advancing by one (mod 2^32 / 2^64) never repeats within fewer than 2^32 / 2^64 steps (C14)
    pub proof fn lemma_u32_counter_distinct(s0: u32, i: nat, j: nat)
        requires i < j, j < 0x1_0000_0000
        ensures ((s0 as nat + i) % 0x1_0000_0000) != ((s0 as nat + j) % 0x1_0000_0000)
    {
        let m = 0x1_0000_0000int;
        let a = s0 as int + i as int;
        let b = s0 as int + j as int;
        if a % m == b % m {
            vstd::arithmetic::div_mod::lemma_fundamental_div_mod(a, m);
            vstd::arithmetic::div_mod::lemma_fundamental_div_mod(b, m);
            // b - a = m * (b/m - a/m) with 0 < b - a < m: impossible
            let d = b / m - a / m;
            assert(b - a == m * d) by(nonlinear_arith)
                requires a == m * (a / m) + a % m, b == m * (b / m) + b % m, a % m == b % m, d == b / m - a / m;
            assert(false) by(nonlinear_arith) requires 0 < b - a < m, b - a == m * d;
        }
    }
    pub proof fn lemma_u64_counter_distinct(s0: u64, i: nat, j: nat)
        requires i < j, j < 0x1_0000_0000_0000_0000
        ensures ((s0 as nat + i) % 0x1_0000_0000_0000_0000) != ((s0 as nat + j) % 0x1_0000_0000_0000_0000)
    {
        let m = 0x1_0000_0000_0000_0000int;
        let a = s0 as int + i as int;
        let b = s0 as int + j as int;
        if a % m == b % m {
            vstd::arithmetic::div_mod::lemma_fundamental_div_mod(a, m);
            vstd::arithmetic::div_mod::lemma_fundamental_div_mod(b, m);
            let d = b / m - a / m;
            assert(b - a == m * d) by(nonlinear_arith)
                requires a == m * (a / m) + a % m, b == m * (b / m) + b % m, a % m == b % m, d == b / m - a / m;
            assert(false) by(nonlinear_arith) requires 0 < b - a < m, b - a == m * d;
        }
    }
}
