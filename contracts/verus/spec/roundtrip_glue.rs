// C15, message level: decode(encode(m)) == m.
// The encoder contracts (codec unit) say WHAT octets a request message is: enc_community_msg / enc_v3 over enc_pdu_body.
// The decoder contracts (decoders unit) say what any accepted octets DENOTE: msg_ok / v3_ok / pdu_ok / get_ok / bulk_ok.
// These lemmas close the loop: whatever value the library's decoder returns for the octets its encoder wrote carries
// exactly the original fields, and nothing is left over (msg_ok / v3_ok include "no trailing octets").
pub mod roundtrip_glue {
    use vstd::prelude::*;
    use crate::ber_spec::*;
    use crate::enc_spec::*;
    use crate::roundtrip_spec::*;
    use crate::ber::SnmpOid;
    use crate::snmp::get::{SnmpGet, get_ok};
    use crate::snmp::getbulk::{SnmpGetBulk, bulk_ok};
    use crate::snmp::getresponse::{names_ok, name_ok, resp_varbinds};
    use crate::snmp::pdu::{SnmpPdu, pdu_ok};
    use crate::snmp::msg::v1::SnmpV1Message;
    use crate::snmp::msg::v2c::SnmpV2cMessage;
    use crate::snmp::msg::v3::msg::{SnmpV3Message, v3_ok};
    use crate::snmp::msg::v3::data::{MsgData, data_ok};
    use crate::snmp::msg::v3::scoped::{ScopedPdu, scoped_ok};
    use crate::snmp::msg::v3::usm::{UsmParameters, usm_ok};

    pub open spec fn names_of(vars: Seq<SnmpOid>) -> Seq<Seq<u8>> {
        Seq::new(vars.len(), |k: int| vars[k].0@)
    }

    // every name is shorter than the list that holds it
    pub proof fn lemma_varbinds_len_ge(names: Seq<Seq<u8>>, j: int)
        requires 0 <= j < names.len()
        ensures enc_varbinds(names).len() >= names[j].len() + 6
        decreases names.len()
    {
        let tail = names.subrange(1, names.len() as int);
        lemma_tlv_len(0x30, enc_oid(names[0]) + enc_null());
        lemma_tlv_len(6, names[0]);
        if j > 0 {
            lemma_varbinds_len_ge(tail, j - 1);
            assert(tail[j - 1] == names[j]);
        }
    }
    pub proof fn lemma_names_fit(names: Seq<Seq<u8>>)
        requires enc_varbinds(names).len() <= 65535
        ensures names_fit(names)
    {
        assert forall|j: int| 0 <= j < names.len() implies (#[trigger] names[j]).len() <= 65529 by {
            lemma_varbinds_len_ge(names, j);
        }
    }

    // the names read back from an encoded name list are the names that were encoded: same count, same order, same octets
    pub proof fn lemma_names_unique(names: Seq<Seq<u8>>, vars: Seq<SnmpOid>)
        requires names_fit(names), names_ok(enc_varbinds(names), vars)
        ensures names_of(vars) == names
    {
        let vbs = enc_varbinds(names);
        let n = names.len();
        if vars.len() > n {
            lemma_varbinds_nth(names, n);
            assert(names.subrange(n as int, n as int) =~= Seq::<Seq<u8>>::empty());
            let ni = n as int;
            assert(nth_rest(vbs, ni as nat).len() > 0);
            assert(false);
        }
        if vars.len() < n {
            lemma_varbinds_nth(names, vars.len());
            lemma_varbinds_empty_iff(names.subrange(vars.len() as int, n as int));
            assert(false);
        }
        assert forall|k: int| 0 <= k < n implies vars[k].0@ == names[k] by {
            lemma_varbinds_nth(names, k as nat);
            lemma_varbinds_step(names, k + 1);
            lemma_varbind_reads_back(names[k], enc_varbinds(names.subrange(k + 1, n as int)));
            assert(name_ok(nth_rest(vbs, k as nat), &vars[k]));
        }
        assert(names_of(vars) =~= names);
    }

    // Get / GetNext PDU body
    pub proof fn lemma_get_body_roundtrip(rid: i64, names: Seq<Seq<u8>>, g: &SnmpGet)
        requires enc_varbinds(names).len() <= 65535, get_ok(enc_pdu_body(rid as int, 0, 0, names), g)
        ensures g.request_id == rid, names_of(g.vars@) == names
    {
        lemma_pdu_body_reads_back(rid, 0i64, 0i64, names);
        lemma_names_fit(names);
        lemma_names_unique(names, g.vars@);
    }
    // GetBulk PDU body
    pub proof fn lemma_bulk_body_roundtrip(rid: i64, non_repeaters: i64, max_repetitions: i64, names: Seq<Seq<u8>>, g: &SnmpGetBulk)
        requires enc_varbinds(names).len() <= 65535, bulk_ok(enc_pdu_body(rid as int, non_repeaters as int, max_repetitions as int, names), g)
        ensures g.request_id == rid, g.non_repeaters == non_repeaters, g.max_repetitions == max_repetitions, names_of(g.vars@) == names
    {
        lemma_pdu_body_reads_back(rid, non_repeaters, max_repetitions, names);
        lemma_names_fit(names);
        lemma_names_unique(names, g.vars@);
    }

    // what the decoded PDU must be, given the request that was encoded (tag 0xa0 Get, 0xa1 GetNext, 0xa5 GetBulk)
    pub open spec fn same_request(tag: u8, rid: i64, f1: i64, f2: i64, names: Seq<Seq<u8>>, p: &SnmpPdu) -> bool {
        match p {
            SnmpPdu::GetRequest(g) => tag == 0xa0 && g.request_id == rid && names_of(g.vars@) == names,
            SnmpPdu::GetNextRequest(g) => tag == 0xa1 && g.request_id == rid && names_of(g.vars@) == names,
            SnmpPdu::GetBulkRequest(g) => tag == 0xa5 && g.request_id == rid && g.non_repeaters == f1 && g.max_repetitions == f2 && names_of(g.vars@) == names,
            _ => false,
        }
    }
    pub open spec fn request_shape(tag: u8, f1: i64, f2: i64) -> bool {
        (tag == 0xa0 || tag == 0xa1 || tag == 0xa5) && (tag != 0xa5 ==> f1 == 0 && f2 == 0)
    }

    pub proof fn lemma_pdu_roundtrip(tag: u8, rid: i64, f1: i64, f2: i64, names: Seq<Seq<u8>>, rest: Seq<u8>, p: &SnmpPdu)
        requires
            request_shape(tag, f1, f2),
            enc_pdu_body(rid as int, f1 as int, f2 as int, names).len() <= 65535,
            pdu_ok(tlv(tag, enc_pdu_body(rid as int, f1 as int, f2 as int, names)) + rest, p),
        ensures same_request(tag, rid, f1, f2, names, p)
    {
        let body = enc_pdu_body(rid as int, f1 as int, f2 as int, names);
        lemma_tlv_reads_back(tag, body, rest);
        lemma_tlv_len(0x30, enc_varbinds(names));
        assert(body.len() >= tlv(0x30, enc_varbinds(names)).len());
        match p {
            SnmpPdu::GetRequest(g) => { lemma_get_body_roundtrip(rid, names, g); },
            SnmpPdu::GetNextRequest(g) => { lemma_get_body_roundtrip(rid, names, g); },
            SnmpPdu::GetBulkRequest(g) => { lemma_bulk_body_roundtrip(rid, f1, f2, names, g); },
            _ => {},
        }
    }

    // v1 / v2c request message
    pub proof fn lemma_v2c_roundtrip(community: Seq<u8>, tag: u8, rid: i64, f1: i64, f2: i64, names: Seq<Seq<u8>>, m: &SnmpV2cMessage)
        requires
            request_shape(tag, f1, f2),
            enc_community_msg(1, community, tlv(tag, enc_pdu_body(rid as int, f1 as int, f2 as int, names))).len() <= 65535,
            crate::snmp::msg::v2c::msg_ok(enc_community_msg(1, community, tlv(tag, enc_pdu_body(rid as int, f1 as int, f2 as int, names))), m),
        ensures m.community@ == community, same_request(tag, rid, f1, f2, names, &m.pdu)
    {
        let body = enc_pdu_body(rid as int, f1 as int, f2 as int, names);
        let pdu = tlv(tag, body);
        let inner = enc_int(1) + enc_octets(community) + pdu;
        lemma_tlv_len(0x30, inner);
        lemma_tlv_len(4, community);
        lemma_tlv_len(tag, body);
        lemma_community_msg_reads_back(1i64, community, pdu);
        assert(pdu =~= pdu + Seq::<u8>::empty());
        lemma_pdu_roundtrip(tag, rid, f1, f2, names, Seq::<u8>::empty(), &m.pdu);
    }
    pub proof fn lemma_v1_roundtrip(community: Seq<u8>, tag: u8, rid: i64, names: Seq<Seq<u8>>, m: &SnmpV1Message)
        requires
            tag == 0xa0 || tag == 0xa1,
            enc_community_msg(0, community, tlv(tag, enc_pdu_body(rid as int, 0, 0, names))).len() <= 65535,
            crate::snmp::msg::v1::msg_ok(enc_community_msg(0, community, tlv(tag, enc_pdu_body(rid as int, 0, 0, names))), m),
        ensures m.community@ == community, same_request(tag, rid, 0, 0, names, &m.pdu)
    {
        let body = enc_pdu_body(rid as int, 0, 0, names);
        let pdu = tlv(tag, body);
        let inner = enc_int(0) + enc_octets(community) + pdu;
        lemma_tlv_len(0x30, inner);
        lemma_tlv_len(4, community);
        lemma_tlv_len(tag, body);
        lemma_community_msg_reads_back(0i64, community, pdu);
        assert(pdu =~= pdu + Seq::<u8>::empty());
        lemma_pdu_roundtrip(tag, rid, 0i64, 0i64, names, Seq::<u8>::empty(), &m.pdu);
    }

    // msgFlags bits
    pub proof fn lemma_flags_bits(auth: bool, privf: bool, report: bool)
        ensures
            (flags_octet(auth, privf, report) & 1 != 0) == auth,
            (flags_octet(auth, privf, report) & 2 != 0) == privf,
            (flags_octet(auth, privf, report) & 4 != 0) == report,
    {
        assert(0u8 & 1 == 0 && 0u8 & 2 == 0 && 0u8 & 4 == 0) by(bit_vector);
        assert(1u8 & 1 == 1 && 1u8 & 2 == 0 && 1u8 & 4 == 0) by(bit_vector);
        assert(2u8 & 1 == 0 && 2u8 & 2 == 2 && 2u8 & 4 == 0) by(bit_vector);
        assert(3u8 & 1 == 1 && 3u8 & 2 == 2 && 3u8 & 4 == 0) by(bit_vector);
        assert(4u8 & 1 == 0 && 4u8 & 2 == 0 && 4u8 & 4 == 4) by(bit_vector);
        assert(5u8 & 1 == 1 && 5u8 & 2 == 0 && 5u8 & 4 == 4) by(bit_vector);
        assert(6u8 & 1 == 0 && 6u8 & 2 == 2 && 6u8 & 4 == 4) by(bit_vector);
        assert(7u8 & 1 == 1 && 7u8 & 2 == 2 && 7u8 & 4 == 4) by(bit_vector);
    }

    pub proof fn lemma_usm_roundtrip(engine_id: Seq<u8>, boots: i64, time: i64, user: Seq<u8>, auth_params: Seq<u8>, priv_params: Seq<u8>, u: &UsmParameters)
        requires
            enc_usm(engine_id, boots as int, time as int, user, auth_params, priv_params).len() <= 65535,
            usm_ok(enc_usm(engine_id, boots as int, time as int, user, auth_params, priv_params), u),
        ensures
            u.engine_id@ == engine_id, u.engine_boots == boots, u.engine_time == time, u.user_name@ == user,
            u.auth_params@ == auth_params, u.privacy_params@ == priv_params,
    {
        let usm_inner = enc_octets(engine_id) + enc_int(boots as int) + enc_int(time as int) + enc_octets(user) + enc_octets(auth_params) + enc_octets(priv_params);
        lemma_tlv_len(0x30, usm_inner);
        lemma_tlv_len(4, engine_id); lemma_tlv_len(4, user); lemma_tlv_len(4, auth_params); lemma_tlv_len(4, priv_params);
        lemma_usm_reads_back(engine_id, boots, time, user, auth_params, priv_params);
    }

    pub proof fn lemma_scoped_roundtrip(ctx_engine_id: Seq<u8>, tag: u8, rid: i64, f1: i64, f2: i64, names: Seq<Seq<u8>>, pad: Seq<u8>, sp: &ScopedPdu)
        requires
            request_shape(tag, f1, f2),
            enc_scoped(ctx_engine_id, tlv(tag, enc_pdu_body(rid as int, f1 as int, f2 as int, names))).len() <= 65535,
            scoped_ok(enc_scoped(ctx_engine_id, tlv(tag, enc_pdu_body(rid as int, f1 as int, f2 as int, names))) + pad, sp),
        ensures sp.engine_id@ == ctx_engine_id, same_request(tag, rid, f1, f2, names, &sp.pdu)
    {
        let body = enc_pdu_body(rid as int, f1 as int, f2 as int, names);
        let pdu = tlv(tag, body);
        let sc_inner = enc_octets(ctx_engine_id) + enc_octets(Seq::<u8>::empty()) + pdu;
        lemma_tlv_len(0x30, sc_inner);
        lemma_tlv_len(4, ctx_engine_id);
        lemma_tlv_len(tag, body);
        lemma_scoped_reads_back(ctx_engine_id, pdu, pad);
        assert(pdu =~= pdu + Seq::<u8>::empty());
        lemma_pdu_roundtrip(tag, rid, f1, f2, names, Seq::<u8>::empty(), &sp.pdu);
    }

    // v3 request message with a plaintext scoped PDU (with privacy msgData is ciphertext: C11 relates it to the scoped PDU)
    pub proof fn lemma_v3_roundtrip(
        msg_id: i64, auth: bool, privf: bool, report: bool,
        engine_id: Seq<u8>, boots: i64, time: i64, user: Seq<u8>, auth_params: Seq<u8>, priv_params: Seq<u8>,
        ctx_engine_id: Seq<u8>, tag: u8, rid: i64, f1: i64, f2: i64, names: Seq<Seq<u8>>, m: &SnmpV3Message)
        requires
            request_shape(tag, f1, f2),
            enc_v3(msg_id as int, flags_octet(auth, privf, report), enc_usm(engine_id, boots as int, time as int, user, auth_params, priv_params),
                enc_scoped(ctx_engine_id, tlv(tag, enc_pdu_body(rid as int, f1 as int, f2 as int, names)))).len() <= 65535,
            v3_ok(enc_v3(msg_id as int, flags_octet(auth, privf, report), enc_usm(engine_id, boots as int, time as int, user, auth_params, priv_params),
                enc_scoped(ctx_engine_id, tlv(tag, enc_pdu_body(rid as int, f1 as int, f2 as int, names)))), m),
        ensures
            m.msg_id == msg_id, m.flag_auth == auth, m.flag_priv == privf, m.flag_report == report,
            m.usm.engine_id@ == engine_id, m.usm.engine_boots == boots, m.usm.engine_time == time, m.usm.user_name@ == user,
            m.usm.auth_params@ == auth_params, m.usm.privacy_params@ == priv_params,
            m.data matches MsgData::Plaintext(sp) && sp.engine_id@ == ctx_engine_id && same_request(tag, rid, f1, f2, names, &sp.pdu),
    {
        hide(spec_header);
        hide(spec_content);
        hide(spec_rest);
        let pdu = tlv(tag, enc_pdu_body(rid as int, f1 as int, f2 as int, names));
        let scoped = enc_scoped(ctx_engine_id, pdu);
        let usm = enc_usm(engine_id, boots as int, time as int, user, auth_params, priv_params);
        let fl = flags_octet(auth, privf, report);
        let g = enc_int(msg_id as int) + enc_int(2048) + tlv(4, seq![fl]) + enc_int(3);
        let inner = enc_int(3) + tlv(0x30, g) + tlv(4, usm) + scoped;
        lemma_tlv_len(0x30, inner);
        lemma_tlv_len(4, usm);
        lemma_v3_reads_back(msg_id, fl, usm, scoped);
        lemma_flags_bits(auth, privf, report);
        lemma_usm_roundtrip(engine_id, boots, time, user, auth_params, priv_params, &m.usm);
        lemma_tlv_len(4, ctx_engine_id);
        assert(scoped[0] == 0x30u8);
        match m.data {
            MsgData::Plaintext(sp) => {
                assert(scoped =~= scoped + Seq::<u8>::empty());
                lemma_scoped_roundtrip(ctx_engine_id, tag, rid, f1, f2, names, Seq::<u8>::empty(), &sp);
            },
            MsgData::Encrypted(_) => {},
        }
    }

    // ---------------------------------------------------------------------------------------------------------
    // The theorems, with the library's own types on both sides: `m0` is the message handed to the encoder (its
    // push_ber contract says the buffer then holds m0.enc()), `m` is ANY value the decoder returns for those octets
    // (its try_from contract says msg_ok / v3_ok). Then m carries the fields of m0.
    pub open spec fn same_pdu(p0: &SnmpPdu, p: &SnmpPdu) -> bool {
        match (p0, p) {
            (SnmpPdu::GetRequest(a), SnmpPdu::GetRequest(b)) => a.request_id == b.request_id && names_of(a.vars@) == names_of(b.vars@),
            (SnmpPdu::GetNextRequest(a), SnmpPdu::GetNextRequest(b)) => a.request_id == b.request_id && names_of(a.vars@) == names_of(b.vars@),
            (SnmpPdu::GetBulkRequest(a), SnmpPdu::GetBulkRequest(b)) => a.request_id == b.request_id && a.non_repeaters == b.non_repeaters
                && a.max_repetitions == b.max_repetitions && names_of(a.vars@) == names_of(b.vars@),
            _ => false,
        }
    }
    proof fn lemma_same_pdu(p0: &SnmpPdu, rest: Seq<u8>, p: &SnmpPdu)
        requires p0.enc_pre(Seq::<u8>::empty()), p0.enc().len() <= 65535, pdu_ok(p0.enc() + rest, p)
        ensures same_pdu(p0, p)
    {
        match p0 {
            SnmpPdu::GetRequest(a) => {
                assert(crate::snmp::get::oid_views(a.vars@) =~= names_of(a.vars@));
                lemma_tlv_len(160, a.enc());
                lemma_pdu_roundtrip(0xa0, a.request_id, 0, 0, names_of(a.vars@), rest, p);
            },
            SnmpPdu::GetNextRequest(a) => {
                assert(crate::snmp::get::oid_views(a.vars@) =~= names_of(a.vars@));
                lemma_tlv_len(161, a.enc());
                lemma_pdu_roundtrip(0xa1, a.request_id, 0, 0, names_of(a.vars@), rest, p);
            },
            SnmpPdu::GetBulkRequest(a) => {
                assert(crate::snmp::get::oid_views(a.vars@) =~= names_of(a.vars@));
                lemma_tlv_len(165, a.enc());
                lemma_pdu_roundtrip(0xa5, a.request_id, a.non_repeaters, a.max_repetitions, names_of(a.vars@), rest, p);
            },
            _ => {},
        }
    }

    pub proof fn theorem_v1_roundtrip(m0: &SnmpV1Message, m: &SnmpV1Message)
        requires m0.pdu.enc_pre(Seq::<u8>::empty()), m0.enc().len() <= 65535, crate::snmp::msg::v1::msg_ok(m0.enc(), m)
        ensures m.community@ == m0.community@, same_pdu(&m0.pdu, &m.pdu)
    {
        let pdu = m0.pdu.enc();
        let inner = enc_int(0) + enc_octets(m0.community@) + pdu;
        lemma_tlv_len(0x30, inner);
        lemma_tlv_len(4, m0.community@);
        lemma_community_msg_reads_back(0i64, m0.community@, pdu);
        assert(pdu =~= pdu + Seq::<u8>::empty());
        lemma_same_pdu(&m0.pdu, Seq::<u8>::empty(), &m.pdu);
    }
    pub proof fn theorem_v2c_roundtrip(m0: &SnmpV2cMessage, m: &SnmpV2cMessage)
        requires m0.pdu.enc_pre(Seq::<u8>::empty()), m0.enc().len() <= 65535, crate::snmp::msg::v2c::msg_ok(m0.enc(), m)
        ensures m.community@ == m0.community@, same_pdu(&m0.pdu, &m.pdu)
    {
        let pdu = m0.pdu.enc();
        let inner = enc_int(1) + enc_octets(m0.community@) + pdu;
        lemma_tlv_len(0x30, inner);
        lemma_tlv_len(4, m0.community@);
        lemma_community_msg_reads_back(1i64, m0.community@, pdu);
        assert(pdu =~= pdu + Seq::<u8>::empty());
        lemma_same_pdu(&m0.pdu, Seq::<u8>::empty(), &m.pdu);
    }
    // v3 with a plaintext scoped PDU; with privacy, msgData is ciphertext and is handed on untouched (second clause)
    pub proof fn theorem_v3_roundtrip(m0: &SnmpV3Message, m: &SnmpV3Message)
        requires m0.data.enc_pre(Seq::<u8>::empty()), m0.enc().len() <= 65535, v3_ok(m0.enc(), m)
        ensures
            m.msg_id == m0.msg_id, m.flag_auth == m0.flag_auth, m.flag_priv == m0.flag_priv, m.flag_report == m0.flag_report,
            m.usm.engine_id@ == m0.usm.engine_id@, m.usm.engine_boots == m0.usm.engine_boots, m.usm.engine_time == m0.usm.engine_time,
            m.usm.user_name@ == m0.usm.user_name@, m.usm.auth_params@ == m0.usm.auth_params@, m.usm.privacy_params@ == m0.usm.privacy_params@,
            match (m0.data, m.data) {
                (MsgData::Plaintext(s0), MsgData::Plaintext(s)) => s.engine_id@ == s0.engine_id@ && same_pdu(&s0.pdu, &s.pdu),
                (MsgData::Encrypted(x0), MsgData::Encrypted(x)) => x@ == x0@,
                _ => false,
            },
    {
        hide(spec_header);
        hide(spec_content);
        hide(spec_rest);
        let usm = m0.usm.enc();
        let data = m0.data.enc();
        let fl = flags_octet(m0.flag_auth, m0.flag_priv, m0.flag_report);
        let g = enc_int(m0.msg_id as int) + enc_int(2048) + tlv(4, seq![fl]) + enc_int(3);
        let inner = enc_int(3) + tlv(0x30, g) + tlv(4, usm) + data;
        lemma_tlv_len(0x30, inner);
        lemma_tlv_len(4, usm);
        lemma_v3_reads_back(m0.msg_id, fl, usm, data);
        lemma_flags_bits(m0.flag_auth, m0.flag_priv, m0.flag_report);
        lemma_usm_roundtrip(m0.usm.engine_id@, m0.usm.engine_boots, m0.usm.engine_time, m0.usm.user_name@, m0.usm.auth_params@, m0.usm.privacy_params@, &m.usm);
        match m0.data {
            MsgData::Plaintext(s0) => {
                lemma_plain_data(&s0, &m.data);
            },
            MsgData::Encrypted(x0) => {
                lemma_cipher_data(x0@, &m.data);
            },
        }
    }
    proof fn lemma_plain_data(s0: &ScopedPdu, d: &MsgData)
        requires s0.pdu.enc_pre(Seq::<u8>::empty()), s0.enc().len() <= 65535, data_ok(s0.enc(), d)
        ensures d matches MsgData::Plaintext(s) && s.engine_id@ == s0.engine_id@ && same_pdu(&s0.pdu, &s.pdu)
    {
        let pdu = s0.pdu.enc();
        let sc_inner = enc_octets(s0.engine_id@) + enc_octets(Seq::<u8>::empty()) + pdu;
        lemma_tlv_len(0x30, sc_inner);
        lemma_tlv_len(4, s0.engine_id@);
        assert(s0.enc()[0] == 0x30u8);
        match d {
            MsgData::Plaintext(s) => {
                assert(s0.enc() =~= s0.enc() + Seq::<u8>::empty());
                lemma_scoped_reads_back(s0.engine_id@, pdu, Seq::<u8>::empty());
                assert(pdu =~= pdu + Seq::<u8>::empty());
                lemma_same_pdu(&s0.pdu, Seq::<u8>::empty(), &s.pdu);
            },
            MsgData::Encrypted(_) => {},
        }
    }
    proof fn lemma_cipher_data(x0: Seq<u8>, d: &MsgData)
        requires enc_octets(x0).len() <= 65535, data_ok(enc_octets(x0), d)
        ensures d matches MsgData::Encrypted(x) && x@ == x0
    {
        lemma_tlv_len(4, x0);
        assert(enc_octets(x0) =~= tlv(4, x0) + Seq::<u8>::empty());
        lemma_tlv_reads_back(4, x0, Seq::<u8>::empty());
        assert(enc_octets(x0)[0] == 4u8);
    }
}
