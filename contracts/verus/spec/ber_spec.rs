// X.690 §8.1.2–8.1.3 identifier and length octets, written from the standard (not from the code).
pub mod ber_spec {
    use vstd::prelude::*;
    use crate::ber::BerClass;

    pub struct Hdr {
        pub class: BerClass,
        pub constructed: bool,
        pub tag: nat,
        pub length: nat,
        pub hlen: nat,
    }

    pub open spec fn spec_class(b: u8) -> BerClass {
        if b / 64 == 0 { BerClass::Universal }
        else if b / 64 == 1 { BerClass::Application }
        else if b / 64 == 2 { BerClass::Context }
        else { BerClass::Private }
    }

    // high-tag-number form: base-128 big-endian, bit 8 set on all but the last octet
    pub open spec fn spec_high_tag(s: Seq<u8>, k: int, acc: nat) -> Option<(nat, int)>
        decreases s.len() - k
    {
        if k < 0 || k >= s.len() { None }
        else {
            let a = acc * 128 + (s[k] % 128) as nat;
            if s[k] < 128 { Some((a, k + 1)) } else { spec_high_tag(s, k + 1, a) }
        }
    }

    // big-endian value of n octets starting at k
    pub open spec fn spec_be(s: Seq<u8>, k: int, n: nat) -> nat
        decreases n
    {
        if n == 0 { 0 } else { spec_be(s, k, (n - 1) as nat) * 256 + s[k + n - 1] as nat }
    }

    // identifier octets: Some((tag number, index of the first length octet))
    pub open spec fn spec_ident(s: Seq<u8>) -> Option<(nat, int)>
        recommends s.len() >= 1
    {
        if s[0] % 32 == 31 { spec_high_tag(s, 1, 0) } else { Some(((s[0] % 32) as nat, 1int)) }
    }

    // length octets starting at k (definite forms; 0x80 is read as a long form with zero length
    // octets, i.e. length 0 — SNMP forbids the indefinite form and no property speaks about it)
    pub open spec fn spec_len(s: Seq<u8>, k: int) -> (nat, int)
        recommends 0 <= k < s.len()
    {
        let n = s[k];
        if n < 128 { (n as nat, k + 1) } else { (spec_be(s, k + 1, (n % 128) as nat), k + 1 + (n % 128)) }
    }

    pub open spec fn spec_header(s: Seq<u8>) -> Option<Hdr> {
        if s.len() < 2 { None } else {
            match spec_ident(s) {
                None => None,
                Some((tag, k)) => {
                    if k >= s.len() { None } else {
                        let (length, hlen) = spec_len(s, k);
                        if hlen > s.len() || hlen + length > s.len() { None }
                        else {
                            Some(Hdr { class: spec_class(s[0]), constructed: (s[0] / 32) % 2 == 1, tag, length, hlen: hlen as nat })
                        }
                    }
                }
            }
        }
    }

    // exec header record `h` carries the spec header `sh` (tag numbers >= 256 alias mod 256: Tag is u8)
    pub open spec fn hdr_matches(h: &crate::ber::BerHeader, sh: Hdr) -> bool {
        &&& h.length == sh.length
        &&& h.class == sh.class
        &&& h.constructed == sh.constructed
        &&& h.tag as nat == sh.tag % 256
    }

    // content octets of the element at the front of s
    pub open spec fn spec_content(s: Seq<u8>) -> Seq<u8>
        recommends spec_header(s) is Some
    {
        let h = spec_header(s)->Some_0;
        s.subrange(h.hlen as int, (h.hlen + h.length) as int)
    }

    // what follows the element at the front of s
    pub open spec fn spec_rest(s: Seq<u8>) -> Seq<u8>
        recommends spec_header(s) is Some
    {
        let h = spec_header(s)->Some_0;
        s.subrange((h.hlen + h.length) as int, s.len() as int)
    }

    // the octets of `s` after its first k top-level elements
    pub open spec fn nth_rest(s: Seq<u8>, k: nat) -> Seq<u8>
        decreases k
    {
        if k == 0 { s } else { spec_rest(nth_rest(s, (k - 1) as nat)) }
    }

    // unsigned big-endian value of an octet string
    pub open spec fn be_u(c: Seq<u8>) -> nat
        decreases c.len()
    {
        if c.len() == 0 { 0 } else { be_u(c.drop_last()) * 256 + c.last() as nat }
    }

    pub open spec fn pow256(n: nat) -> nat
        decreases n
    {
        if n == 0 { 1 } else { 256 * pow256((n - 1) as nat) }
    }

    // two's complement value of an octet string (X.690 §8.3.3); empty contents read as 0
    pub open spec fn twos(c: Seq<u8>) -> int {
        if c.len() == 0 { 0 } else if c[0] < 128 { be_u(c) as int } else { be_u(c) - pow256(c.len()) }
    }

    // ---- well-formed input (the ACCEPTANCE side of the decode contracts: what the standard allows must be accepted).
    // `i` starts with a complete element whose identifier is the single octet `id` (X.690 §8.1.2.2–8.1.2.3: class,
    // P/C bit and a tag number 0..30 in one octet — every tag SNMP uses)
    pub open spec fn starts_with_id(i: Seq<u8>, id: u8) -> bool { spec_header(i) is Some && i[0] == id }
    // INTEGER that fits the i64 the library hands on (X.690 §8.3: at least one contents octet)
    pub open spec fn int_acc(i: Seq<u8>) -> bool { starts_with_id(i, 0x02) && 1 <= spec_header(i)->Some_0.length <= 8 }
    pub open spec fn octets_acc(i: Seq<u8>) -> bool { starts_with_id(i, 0x04) }
    pub open spec fn seq_acc(i: Seq<u8>) -> bool { starts_with_id(i, 0x30) }
    pub open spec fn null_acc(i: Seq<u8>) -> bool { starts_with_id(i, 0x05) && spec_header(i)->Some_0.length == 0 }
    // OBJECT IDENTIFIER whose contents are whole sub-identifiers (X.690 §8.19.2)
    pub open spec fn oid_acc(i: Seq<u8>) -> bool {
        starts_with_id(i, 0x06) && (spec_content(i).len() == 0 || spec_content(i).last() < 128)
    }

    // TRUSTED: `==` / `!=` on BerClass is the derived (structural) PartialEq; `!=` is the provided method `ne`, which vstd
    // specifies through eq_spec / obeys_eq_spec of the implementation
    pub broadcast proof fn axiom_eq_berclass(a: &BerClass, b: &BerClass)
        ensures #[trigger] <BerClass as vstd::std_specs::cmp::PartialEqSpec<BerClass>>::eq_spec(a, b) == (*a == *b) { admit(); }
    pub broadcast proof fn axiom_obeys_berclass()
        ensures #[trigger] <BerClass as vstd::std_specs::cmp::PartialEqSpec<BerClass>>::obeys_eq_spec() { admit(); }
    pub broadcast group group_berclass_eq { axiom_eq_berclass, axiom_obeys_berclass }

    // a header never describes more than the input holds (X.690 definite form over a finite input)
    pub proof fn lemma_header_bounds(s: Seq<u8>)
        requires spec_header(s) is Some
        ensures
            2 <= spec_header(s)->Some_0.hlen,
            spec_header(s)->Some_0.hlen + spec_header(s)->Some_0.length <= s.len(),
    {
        lemma_ident_bounds(s);
    }

    pub proof fn lemma_high_tag_bounds(s: Seq<u8>, k: int, acc: nat)
        requires spec_high_tag(s, k, acc) is Some, k >= 1
        ensures spec_high_tag(s, k, acc)->Some_0.1 > k
        decreases s.len() - k
    {
        if k >= 0 && k < s.len() && s[k] >= 128 {
            lemma_high_tag_bounds(s, k + 1, acc * 128 + (s[k] % 128) as nat);
        }
    }

    pub proof fn lemma_ident_bounds(s: Seq<u8>)
        requires s.len() >= 1, spec_ident(s) is Some
        ensures spec_ident(s)->Some_0.1 >= 1
    {
        if s[0] % 32 == 31 {
            lemma_high_tag_bounds(s, 1, 0);
        }
    }

    // spec_be is monotone in the number of octets read: every further octet multiplies by 256
    pub proof fn lemma_spec_be_grows(s: Seq<u8>, k: int, j: nat, n: nat)
        requires j < n
        ensures spec_be(s, k, n) >= spec_be(s, k, j) * 256
        decreases n
    {
        if n - 1 == j {
        } else {
            lemma_spec_be_grows(s, k, j, (n - 1) as nat);
        }
    }

    pub proof fn lemma_mod_step(acc: nat, x: nat)
        requires x < 128
        ensures (acc * 128 + x) % 256 == ((acc % 256) * 128 + x) % 256
    {
        vstd::arithmetic::div_mod::lemma_fundamental_div_mod(acc as int, 256);
        let q = acc / 256;
        let r = acc % 256;
        assert(acc * 128 + x == (q * 128) * 256 + (r * 128 + x)) by(nonlinear_arith)
            requires acc == 256 * q + r;
        vstd::arithmetic::div_mod::lemma_mod_multiples_vanish((q * 128) as int, (r * 128 + x) as int, 256);
    }
}
