// Forward (front-to-back) specification encoders, written from X.690, RFC 1157, RFC 3416, RFC 3412, RFC 3414.
pub mod enc_spec {
    use vstd::prelude::*;
    use crate::buf::tag_len_bytes;

    // tag, minimal definite length, contents  (contents <= 65535 octets)
    pub open spec fn tlv(tag: u8, c: Seq<u8>) -> Seq<u8> {
        tag_len_bytes(tag, c.len()) + c
    }

    // X.690 §8.3: minimal two's complement contents octets of an integer (floor division / Euclidean remainder)
    pub open spec fn int_octets(x: int) -> Seq<u8>
        decreases (if x >= 0 { x } else { -x })
    {
        if -128 <= x < 128 { seq![(x % 256) as u8] } else { int_octets(x / 256) + seq![(x % 256) as u8] }
    }

    pub open spec fn enc_int(x: int) -> Seq<u8> { tlv(2, int_octets(x)) }
    pub open spec fn enc_null() -> Seq<u8> { seq![5u8, 0u8] }
    pub open spec fn enc_oid(o: Seq<u8>) -> Seq<u8> { tlv(6, o) }
    pub open spec fn enc_octets(o: Seq<u8>) -> Seq<u8> { tlv(4, o) }
    // VarBind ::= SEQUENCE { name ObjectName, value NULL }
    pub open spec fn enc_varbind(o: Seq<u8>) -> Seq<u8> { tlv(0x30, enc_oid(o) + enc_null()) }
    // VarBindList contents: the varbinds in order
    pub open spec fn enc_varbinds(vars: Seq<Seq<u8>>) -> Seq<u8>
        decreases vars.len()
    {
        if vars.len() == 0 { Seq::<u8>::empty() } else { enc_varbind(vars[0]) + enc_varbinds(vars.subrange(1, vars.len() as int)) }
    }
    // PDU body (RFC 3416 §3): request-id, error-status 0 / non-repeaters, error-index 0 / max-repetitions, varbind list
    pub open spec fn enc_pdu_body(request_id: int, f1: int, f2: int, vars: Seq<Seq<u8>>) -> Seq<u8> {
        enc_int(request_id) + enc_int(f1) + enc_int(f2) + tlv(0x30, enc_varbinds(vars))
    }
    // community-based message (RFC 1157 / RFC 1901): version, community, PDU
    pub open spec fn enc_community_msg(version: int, community: Seq<u8>, pdu: Seq<u8>) -> Seq<u8> {
        tlv(0x30, enc_int(version) + enc_octets(community) + pdu)
    }

    // peeling the varbind list from the back, as the back-to-front encoder does
    pub proof fn lemma_varbinds_step(names: Seq<Seq<u8>>, j: int)
        requires 1 <= j <= names.len()
        ensures enc_varbinds(names.subrange(j - 1, names.len() as int))
            == enc_varbind(names[j - 1]) + enc_varbinds(names.subrange(j, names.len() as int))
    {
        let s = names.subrange(j - 1, names.len() as int);
        assert(s.subrange(1, s.len() as int) =~= names.subrange(j, names.len() as int));
    }

    pub proof fn lemma_enc_int_zero()
        ensures enc_int(0) == seq![2u8, 1u8, 0u8]
    {
        assert(int_octets(0) =~= seq![0u8]);
        assert(enc_int(0) =~= seq![2u8, 1u8, 0u8]);
    }

    // RFC 3414 §2.4 UsmSecurityParameters
    pub open spec fn enc_usm(engine_id: Seq<u8>, boots: int, time: int, user: Seq<u8>, auth: Seq<u8>, privp: Seq<u8>) -> Seq<u8> {
        tlv(0x30, enc_octets(engine_id) + enc_int(boots) + enc_int(time) + enc_octets(user) + enc_octets(auth) + enc_octets(privp))
    }
    // RFC 3412 §6 ScopedPDU: contextEngineID, contextName (always empty here), data
    pub open spec fn enc_scoped(engine_id: Seq<u8>, pdu: Seq<u8>) -> Seq<u8> {
        tlv(0x30, enc_octets(engine_id) + enc_octets(Seq::<u8>::empty()) + pdu)
    }
    // msgFlags octet (RFC 3412 §6.4): bit 0 auth, bit 1 priv, bit 2 reportable
    pub open spec fn flags_octet(auth: bool, privf: bool, report: bool) -> u8 {
        ((if auth { 1int } else { 0int }) + (if privf { 2int } else { 0int }) + (if report { 4int } else { 0int })) as u8
    }
    // RFC 3412 §6 SNMPv3Message: version 3, HeaderData{msgID, msgMaxSize 2048, msgFlags, msgSecurityModel 3 (USM)},
    // msgSecurityParameters (OCTET STRING wrapping the USM sequence), msgData
    pub open spec fn enc_v3(msg_id: int, flags: u8, usm: Seq<u8>, data: Seq<u8>) -> Seq<u8> {
        tlv(0x30, enc_int(3) + tlv(0x30, enc_int(msg_id) + enc_int(2048) + tlv(4, seq![flags]) + enc_int(3)) + tlv(4, usm) + data)
    }

    pub proof fn lemma_enc_int_small(x: int)
        requires 0 <= x < 128
        ensures enc_int(x) == seq![2u8, 1u8, x as u8]
    {
        assert(int_octets(x) =~= seq![x as u8]);
        assert(enc_int(x) =~= seq![2u8, 1u8, x as u8]);
    }

    // machine view of floor division / Euclidean remainder by 256 on i64 (arithmetic shift, mask)
    pub proof fn lemma_split_i64(left: i64)
        ensures
            (left >> 8) as int == (left as int) / 256,
            ((left & 0xff) as u8) as int == (left as int) % 256,
            0 <= (left & 0xff) < 256,
    {
        let q = left >> 8;
        let r = left & 0xff;
        assert(q * 256 + r == left && 0 <= r < 256) by(bit_vector) requires q == left >> 8, r == left & 0xff;
        vstd::arithmetic::div_mod::lemma_fundamental_div_mod_converse(left as int, 256, q as int, r as int);
    }

    // 2^(8k-1): the bound of a k-octet two's complement value
    pub open spec fn pow256s(k: nat) -> int
        decreases k
    {
        if k == 0 { 0 } else if k == 1 { 128 } else { 256 * pow256s((k - 1) as nat) }
    }
}
