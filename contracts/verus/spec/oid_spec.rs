// OBJECT IDENTIFIER contents octets as a sequence of sub-identifiers (X.690 §8.19) and the MIB (lexicographic) order on them.
pub mod oid_spec {
    use vstd::prelude::*;

    // one base-128 step: shift the accumulated value by 7 bits and add the low 7 bits of the octet (X.690 §8.19.2), in a
    // 64-bit register (sub-identifiers of SNMP are < 2^32; nine groups fit). lemma_acc_step_is_base128 ties it to arithmetic.
    pub open spec fn acc_step(acc: u64, t: u8) -> u64 {
        (acc << 7) | ((t & 0x7f) as u64)
    }
    pub proof fn lemma_acc_step_is_base128(acc: u64, t: u8)
        requires acc < 0x0200_0000_0000_0000
        ensures acc_step(acc, t) == acc * 128 + (t % 128), (t & 0x80 == 0) == (t < 128)
    {
        assert(((acc << 7) | ((t & 0x7f) as u64)) == acc * 128 + ((t % 128) as u64)) by(bit_vector) requires acc < 0x0200_0000_0000_0000u64;
        assert((t & 0x80 == 0) == (t < 128)) by(bit_vector);
    }

    // one sub-identifier starting at octet i: most significant group first, bit 8 set on all but the last octet;
    // returns (value, index just past the sub-identifier)
    pub open spec fn read_arc(s: Seq<u8>, i: int, acc: u64) -> (u64, int)
        decreases s.len() - i
    {
        if i < 0 || i >= s.len() { (acc, i) }
        else {
            let a = acc_step(acc, s[i]);
            if s[i] & 0x80 == 0 { (a, i + 1) } else { read_arc(s, i + 1, a) }
        }
    }

    pub enum Ord3 { Less, Equal, Greater }

    pub open spec fn cmp_nat(x: int, y: int) -> Ord3 {
        if x < y { Ord3::Less } else if x == y { Ord3::Equal } else { Ord3::Greater }
    }

    // lexicographic comparison of the sub-identifier sequences of a[i..] and b[j..]; a proper prefix is smaller
    pub open spec fn arc_order(a: Seq<u8>, i: int, b: Seq<u8>, j: int) -> Ord3
        decreases a.len() - i
    {
        if i < 0 || j < 0 || i >= a.len() || j >= b.len() {
            cmp_nat(a.len() - i, b.len() - j)
        } else {
            let (x, ni) = read_arc(a, i, 0);
            let (y, nj) = read_arc(b, j, 0);
            if x != y { cmp_nat(x as int, y as int) }
            else if ni <= i || ni > a.len() { Ord3::Equal }   // unreachable: read_arc advances (lemma_read_arc_advances); keeps the definition total
            else { arc_order(a, ni, b, nj) }
        }
    }

    // the subtree test: the base OID's contents octets are a prefix of the candidate's (canonical encodings: a prefix of
    // octets that ends on a sub-identifier boundary is a prefix of sub-identifiers)
    pub open spec fn is_prefix(p: Seq<u8>, s: Seq<u8>) -> bool {
        p.is_prefix_of(s)
    }
    pub proof fn lemma_is_prefix_def(p: Seq<u8>, s: Seq<u8>)
        ensures is_prefix(p, s) == (p.len() <= s.len() && s.subrange(0, p.len() as int) == p)
    {
        if p.is_prefix_of(s) { assert(s.subrange(0, p.len() as int) =~= p); }
    }

    pub proof fn lemma_read_arc_advances(s: Seq<u8>, i: int, acc: u64)
        requires 0 <= i < s.len()
        ensures i < read_arc(s, i, acc).1 <= s.len()
        decreases s.len() - i
    {
        let a = acc_step(acc, s[i]);
        if s[i] & 0x80 != 0 {
            if i + 1 < s.len() {
                lemma_read_arc_advances(s, i + 1, a);
            } else {
                assert(read_arc(s, i + 1, a) == (a, i + 1));
            }
        }
    }

    // an OID is never greater than itself: a repeated OID is not "strictly increasing" (C06)
    pub proof fn lemma_arc_order_reflexive(a: Seq<u8>, i: int)
        requires 0 <= i <= a.len()
        ensures arc_order(a, i, a, i) == Ord3::Equal
        decreases a.len() - i
    {
        if i < a.len() {
            lemma_read_arc_advances(a, i, 0);
            lemma_arc_order_reflexive(a, read_arc(a, i, 0).1);
        }
    }

    // antisymmetry: if a > b then b < a — so an accepted OID can never be followed by the one it replaced (no 2-cycles)
    pub proof fn lemma_arc_order_antisym(a: Seq<u8>, i: int, b: Seq<u8>, j: int)
        requires 0 <= i <= a.len(), 0 <= j <= b.len()
        ensures
            arc_order(a, i, b, j) == Ord3::Greater <==> arc_order(b, j, a, i) == Ord3::Less,
            arc_order(a, i, b, j) == Ord3::Equal <==> arc_order(b, j, a, i) == Ord3::Equal,
        decreases a.len() - i
    {
        if i < a.len() && j < b.len() {
            lemma_read_arc_advances(a, i, 0);
            lemma_read_arc_advances(b, j, 0);
            let (x, ni) = read_arc(a, i, 0);
            let (y, nj) = read_arc(b, j, 0);
            if x == y {
                lemma_arc_order_antisym(a, ni, b, nj);
            }
        }
    }
}
