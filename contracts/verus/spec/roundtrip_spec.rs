// C15: the forward spec encoders (enc_spec) and the X.690 reader (ber_spec) are inverse of each other.
// Pure lemmas over the two spec vocabularies: what the encoder contracts say is written is exactly what the
// decoder contracts say is read back.
pub mod roundtrip_spec {
    use vstd::prelude::*;
    use crate::ber_spec::*;
    use crate::enc_spec::*;
    use crate::buf::tag_len_bytes;

    // An element written as tlv(tag, c) (low-tag-number form, contents <= 65535 octets) followed by anything is read
    // back as: that tag, that class / constructed bit, exactly the contents c, and exactly the octets that followed.
    pub proof fn lemma_tlv_reads_back(tag: u8, c: Seq<u8>, rest: Seq<u8>)
        requires tag % 32 != 31, c.len() <= 65535
        ensures
            spec_header(tlv(tag, c) + rest) is Some,
            spec_header(tlv(tag, c) + rest)->Some_0.tag == tag % 32,
            spec_header(tlv(tag, c) + rest)->Some_0.class == spec_class(tag),
            spec_header(tlv(tag, c) + rest)->Some_0.constructed == ((tag / 32) % 2 == 1),
            spec_header(tlv(tag, c) + rest)->Some_0.length == c.len(),
            spec_content(tlv(tag, c) + rest) == c,
            spec_rest(tlv(tag, c) + rest) == rest,
    {
        let s = tlv(tag, c) + rest;
        let n = c.len() as int;
        let h = tag_len_bytes(tag, n as nat);
        assert(s =~= h + c + rest);
        assert(s[0] == tag);
        if n < 128 {
            assert(s[1] == n as u8);
            assert(spec_len(s, 1) == (n as nat, 2int));
            assert(s.subrange(2, 2 + n) =~= c);
            assert(s.subrange(2 + n, s.len() as int) =~= rest);
        } else if n < 256 {
            assert(s[1] == 0x81u8 && s[2] == n as u8);
            assert(spec_be(s, 2, 1) == spec_be(s, 2, 0) * 256 + s[2] as nat);
            assert(spec_be(s, 2, 0) == 0);
            assert(spec_len(s, 1) == (n as nat, 3int));
            assert(s.subrange(3, 3 + n) =~= c);
            assert(s.subrange(3 + n, s.len() as int) =~= rest);
        } else {
            assert(s[1] == 0x82u8 && s[2] == (n / 256) as u8 && s[3] == (n % 256) as u8);
            assert(spec_be(s, 2, 0) == 0);
            assert(spec_be(s, 2, 1) == spec_be(s, 2, 0) * 256 + s[2] as nat);
            assert(spec_be(s, 2, 2) == spec_be(s, 2, 1) * 256 + s[3] as nat);
            assert(spec_len(s, 1) == (n as nat, 4int));
            assert(s.subrange(4, 4 + n) =~= c);
            assert(s.subrange(4 + n, s.len() as int) =~= rest);
        }
    }

    // X.690 §8.3.2: the first nine bits of a multi-octet INTEGER are neither all zero nor all one
    pub open spec fn int_minimal(o: Seq<u8>) -> bool {
        o.len() == 1 || (o.len() >= 2 && !(o[0] == 0 && o[1] < 128) && !(o[0] == 255 && o[1] >= 128))
    }

    proof fn lemma_be_u_push(o: Seq<u8>, r: u8)
        ensures be_u(o.push(r)) == be_u(o) * 256 + r as nat
    {
        assert(o.push(r).drop_last() =~= o);
        assert(o.push(r).last() == r);
    }

    // int_octets is never empty and starts with the octets of the quotient
    pub proof fn lemma_int_octets_shape(x: int)
        ensures
            int_octets(x).len() >= 1,
            !(-128 <= x < 128) ==> int_octets(x) == int_octets(x / 256).push((x % 256) as u8) && int_octets(x)[0] == int_octets(x / 256)[0],
        decreases (if x >= 0 { x } else { -x })
    {
        if -128 <= x < 128 {
        } else {
            lemma_int_octets_shape(x / 256);
            assert(int_octets(x / 256) + seq![(x % 256) as u8] =~= int_octets(x / 256).push((x % 256) as u8));
        }
    }

    // reading the minimal encoding of x back as two's complement gives x
    pub proof fn lemma_int_value(x: int)
        ensures twos(int_octets(x)) == x
        decreases (if x >= 0 { x } else { -x })
    {
        let o = int_octets(x);
        if -128 <= x < 128 {
            assert(o =~= seq![(x % 256) as u8]);
            assert(o.drop_last() =~= Seq::<u8>::empty());
            assert(be_u(o) == be_u(o.drop_last()) * 256 + o.last() as nat);
            assert(be_u(Seq::<u8>::empty()) == 0);
            assert(pow256(1) == 256 * pow256(0));
            if x >= 0 { assert(o[0] == x); } else { assert(o[0] == x + 256); }
        } else {
            let q = x / 256;
            let r = (x % 256) as u8;
            let oq = int_octets(q);
            lemma_int_octets_shape(x);
            lemma_int_octets_shape(q);
            lemma_int_value(q);
            lemma_be_u_push(oq, r);
            assert(o.len() == oq.len() + 1);
            assert(pow256(o.len()) == 256 * pow256(oq.len()));
            assert(x == q * 256 + x % 256) by { vstd::arithmetic::div_mod::lemma_fundamental_div_mod(x, 256); }
            if oq[0] < 128 {
                assert(twos(o) == be_u(o) as int);
                assert(twos(oq) == be_u(oq) as int);
            } else {
                assert(twos(o) == be_u(o) - pow256(o.len()));
                assert(twos(oq) == be_u(oq) - pow256(oq.len()));
                assert((be_u(oq) - pow256(oq.len())) * 256 == be_u(oq) * 256 - pow256(oq.len()) * 256) by(nonlinear_arith);
            }
        }
    }

    // a value in [-2^(8k-1), 2^(8k-1)) takes at most k octets
    pub proof fn lemma_int_len(x: int, k: nat)
        requires k >= 1, -pow256s(k) <= x < pow256s(k)
        ensures int_octets(x).len() <= k
        decreases k
    {
        if -128 <= x < 128 {
            assert(int_octets(x) =~= seq![(x % 256) as u8]);
        } else {
            lemma_int_octets_shape(x);
            assert(k >= 2) by { if k == 1 { assert(pow256s(1) == 128); } }
            assert(pow256s(k) == 256 * pow256s((k - 1) as nat));
            let q = x / 256;
            assert(-pow256s((k - 1) as nat) <= q < pow256s((k - 1) as nat)) by(nonlinear_arith)
                requires q == x / 256, -(256 * pow256s((k - 1) as nat)) <= x < 256 * pow256s((k - 1) as nat);
            lemma_int_len(q, (k - 1) as nat);
        }
    }

    // and never more than needed
    pub proof fn lemma_int_minimal(x: int)
        ensures int_minimal(int_octets(x))
        decreases (if x >= 0 { x } else { -x })
    {
        let o = int_octets(x);
        if -128 <= x < 128 {
            assert(o =~= seq![(x % 256) as u8]);
        } else {
            let q = x / 256;
            let oq = int_octets(q);
            lemma_int_octets_shape(x);
            lemma_int_octets_shape(q);
            lemma_int_minimal(q);
            assert(x == q * 256 + x % 256) by { vstd::arithmetic::div_mod::lemma_fundamental_div_mod(x, 256); }
            if -128 <= q < 128 {
                assert(oq =~= seq![(q % 256) as u8]);
                assert(o[1] == (x % 256) as u8);
                if o[0] == 0 { assert(q == 0); }
                if o[0] == 255 { assert(q == -1); }
            } else {
                lemma_int_octets_shape(q);
                assert(oq.len() >= 2) by { lemma_int_octets_shape(q / 256); }
                assert(o[1] == oq[1]);
            }
        }
    }

    // every i64: 1..8 contents octets, minimal, and read back unchanged
    pub proof fn lemma_i64_roundtrip(x: i64)
        ensures
            1 <= int_octets(x as int).len() <= 8,
            int_minimal(int_octets(x as int)),
            twos(int_octets(x as int)) == x,
    {
        lemma_int_octets_shape(x as int);
        lemma_int_value(x as int);
        lemma_int_minimal(x as int);
        assert(pow256s(8) == 0x8000_0000_0000_0000) by {
            assert(pow256s(1) == 128);
            assert(pow256s(2) == 256 * pow256s(1));
            assert(pow256s(3) == 256 * pow256s(2));
            assert(pow256s(4) == 256 * pow256s(3));
            assert(pow256s(5) == 256 * pow256s(4));
            assert(pow256s(6) == 256 * pow256s(5));
            assert(pow256s(7) == 256 * pow256s(6));
            assert(pow256s(8) == 256 * pow256s(7));
        }
        lemma_int_len(x as int, 8);
    }

    pub proof fn lemma_tlv_len(tag: u8, c: Seq<u8>)
        ensures c.len() + 2 <= tlv(tag, c).len() <= c.len() + 4
    {}

    // INTEGER
    pub proof fn lemma_enc_int_reads_back(x: i64, rest: Seq<u8>)
        ensures
            spec_header(enc_int(x as int) + rest) is Some,
            spec_header(enc_int(x as int) + rest)->Some_0.tag == 2,
            !spec_header(enc_int(x as int) + rest)->Some_0.constructed,
            spec_content(enc_int(x as int) + rest) == int_octets(x as int),
            twos(spec_content(enc_int(x as int) + rest)) == x,
            spec_rest(enc_int(x as int) + rest) == rest,
    {
        // the readers are used through lemma_tlv_reads_back only: their bodies stay folded (keeps the query small and stable)
        hide(spec_header);
        hide(spec_content);
        hide(spec_rest);
        lemma_i64_roundtrip(x);
        lemma_tlv_reads_back(2, int_octets(x as int), rest);
    }

    // VarBind ::= SEQUENCE { name, NULL }
    pub proof fn lemma_varbind_reads_back(name: Seq<u8>, rest: Seq<u8>)
        requires name.len() <= 65529
        ensures ({
            let e = enc_varbind(name) + rest;
            let c = spec_content(e);
            let ve = spec_rest(c);
            &&& spec_header(e) is Some && spec_header(e)->Some_0.tag == 16 && spec_header(e)->Some_0.constructed
            &&& spec_rest(e) == rest
            &&& spec_header(c) is Some && spec_header(c)->Some_0.tag == 6 && !spec_header(c)->Some_0.constructed
            &&& spec_content(c) == name
            &&& spec_header(ve) is Some && spec_header(ve)->Some_0.tag == 5 && spec_header(ve)->Some_0.length == 0
            &&& spec_rest(ve).len() == 0
        })
    {
        // the readers are used through lemma_tlv_reads_back only: their bodies stay folded (keeps the query small and stable)
        hide(spec_header);
        hide(spec_content);
        hide(spec_rest);
        let inner = enc_oid(name) + enc_null();
        lemma_tlv_len(6, name);
        lemma_tlv_reads_back(0x30, inner, rest);
        lemma_tlv_reads_back(6, name, enc_null());
        assert(enc_null() =~= tlv(5, Seq::<u8>::empty()) + Seq::<u8>::empty());
        lemma_tlv_reads_back(5, Seq::<u8>::empty(), Seq::<u8>::empty());
    }

    pub open spec fn names_fit(names: Seq<Seq<u8>>) -> bool {
        forall|j: int| 0 <= j < names.len() ==> (#[trigger] names[j]).len() <= 65529
    }

    pub proof fn lemma_varbinds_empty_iff(names: Seq<Seq<u8>>)
        ensures (enc_varbinds(names).len() == 0) <==> (names.len() == 0)
    {
        if names.len() > 0 {
            lemma_tlv_len(0x30, enc_oid(names[0]) + enc_null());
        }
    }

    // skipping k varbinds of the encoded list leaves the encoding of the remaining names
    pub proof fn lemma_varbinds_nth(names: Seq<Seq<u8>>, k: nat)
        requires k <= names.len(), names_fit(names)
        ensures nth_rest(enc_varbinds(names), k) == enc_varbinds(names.subrange(k as int, names.len() as int))
        decreases k
    {
        if k == 0 {
            assert(names.subrange(0, names.len() as int) =~= names);
        } else {
            lemma_varbinds_nth(names, (k - 1) as nat);
            lemma_varbinds_step(names, k as int);
            lemma_varbind_reads_back(names[k - 1], enc_varbinds(names.subrange(k as int, names.len() as int)));
        }
    }

    // PDU body: request-id, two INTEGER fields, the varbind list, nothing else
    pub proof fn lemma_pdu_body_reads_back(rid: i64, f1: i64, f2: i64, names: Seq<Seq<u8>>)
        requires enc_varbinds(names).len() <= 65535
        ensures ({
            let b = enc_pdu_body(rid as int, f1 as int, f2 as int, names);
            let b1 = spec_rest(b);
            let b2 = spec_rest(b1);
            let b3 = spec_rest(b2);
            &&& twos(spec_content(b)) == rid
            &&& twos(spec_content(b1)) == f1
            &&& twos(spec_content(b2)) == f2
            &&& spec_header(b3) is Some && spec_header(b3)->Some_0.tag == 16 && spec_header(b3)->Some_0.constructed
            &&& spec_content(b3) == enc_varbinds(names)
            &&& spec_rest(b3).len() == 0
        })
    {
        // the readers are used through lemma_tlv_reads_back only: their bodies stay folded (keeps the query small and stable)
        hide(spec_header);
        hide(spec_content);
        hide(spec_rest);
        let l = tlv(0x30, enc_varbinds(names));
        let b = enc_pdu_body(rid as int, f1 as int, f2 as int, names);
        assert(b =~= enc_int(rid as int) + (enc_int(f1 as int) + (enc_int(f2 as int) + l)));
        lemma_enc_int_reads_back(rid, enc_int(f1 as int) + (enc_int(f2 as int) + l));
        lemma_enc_int_reads_back(f1, enc_int(f2 as int) + l);
        lemma_enc_int_reads_back(f2, l);
        assert(l =~= l + Seq::<u8>::empty());
        lemma_tlv_reads_back(0x30, enc_varbinds(names), Seq::<u8>::empty());
    }

    // community-based message: exactly one SEQUENCE { version, community, PDU }
    pub proof fn lemma_community_msg_reads_back(version: i64, community: Seq<u8>, pdu: Seq<u8>)
        requires community.len() <= 65535, (enc_int(version as int) + enc_octets(community) + pdu).len() <= 65535
        ensures ({
            let m = enc_community_msg(version as int, community, pdu);
            let env = spec_content(m);
            let e1 = spec_rest(env);
            &&& spec_header(m) is Some && spec_header(m)->Some_0.tag == 16 && spec_header(m)->Some_0.constructed
            &&& spec_rest(m).len() == 0
            &&& twos(spec_content(env)) == version
            &&& spec_header(e1) is Some && spec_header(e1)->Some_0.tag == 4
            &&& spec_content(e1) == community
            &&& spec_rest(e1) == pdu
        })
    {
        // the readers are used through lemma_tlv_reads_back only: their bodies stay folded (keeps the query small and stable)
        hide(spec_header);
        hide(spec_content);
        hide(spec_rest);
        let inner = enc_int(version as int) + enc_octets(community) + pdu;
        let m = enc_community_msg(version as int, community, pdu);
        assert(m =~= tlv(0x30, inner) + Seq::<u8>::empty());
        lemma_tlv_reads_back(0x30, inner, Seq::<u8>::empty());
        assert(inner =~= enc_int(version as int) + (enc_octets(community) + pdu));
        lemma_enc_int_reads_back(version, enc_octets(community) + pdu);
        lemma_tlv_reads_back(4, community, pdu);
    }

    // UsmSecurityParameters
    pub proof fn lemma_usm_reads_back(engine_id: Seq<u8>, boots: i64, time: i64, user: Seq<u8>, auth: Seq<u8>, privp: Seq<u8>)
        requires
            engine_id.len() <= 65535, user.len() <= 65535, auth.len() <= 65535, privp.len() <= 65535,
            (enc_octets(engine_id) + enc_int(boots as int) + enc_int(time as int) + enc_octets(user) + enc_octets(auth) + enc_octets(privp)).len() <= 65535,
        ensures ({
            let u = enc_usm(engine_id, boots as int, time as int, user, auth, privp);
            let e0 = spec_content(u);
            let e1 = spec_rest(e0);
            let e2 = spec_rest(e1);
            let e3 = spec_rest(e2);
            let e4 = spec_rest(e3);
            let e5 = spec_rest(e4);
            &&& spec_header(u) is Some && spec_header(u)->Some_0.tag == 16 && spec_header(u)->Some_0.constructed
            &&& spec_rest(u).len() == 0
            &&& spec_content(e0) == engine_id
            &&& twos(spec_content(e1)) == boots
            &&& twos(spec_content(e2)) == time
            &&& spec_content(e3) == user
            &&& spec_content(e4) == auth
            &&& spec_content(e5) == privp
            &&& spec_rest(e5).len() == 0
        })
    {
        // the readers are used through lemma_tlv_reads_back only: their bodies stay folded (keeps the query small and stable)
        hide(spec_header);
        hide(spec_content);
        hide(spec_rest);
        let p5 = enc_octets(privp);
        let p4 = enc_octets(auth) + p5;
        let p3 = enc_octets(user) + p4;
        let p2 = enc_int(time as int) + p3;
        let p1 = enc_int(boots as int) + p2;
        let inner = enc_octets(engine_id) + enc_int(boots as int) + enc_int(time as int) + enc_octets(user) + enc_octets(auth) + enc_octets(privp);
        assert(inner =~= enc_octets(engine_id) + p1);
        let u = enc_usm(engine_id, boots as int, time as int, user, auth, privp);
        assert(u =~= tlv(0x30, inner) + Seq::<u8>::empty());
        lemma_tlv_reads_back(0x30, inner, Seq::<u8>::empty());
        lemma_tlv_reads_back(4, engine_id, p1);
        lemma_enc_int_reads_back(boots, p2);
        lemma_enc_int_reads_back(time, p3);
        lemma_tlv_reads_back(4, user, p4);
        lemma_tlv_reads_back(4, auth, p5);
        assert(p5 =~= tlv(4, privp) + Seq::<u8>::empty());
        lemma_tlv_reads_back(4, privp, Seq::<u8>::empty());
    }

    // ScopedPDU, possibly followed by cipher padding
    pub proof fn lemma_scoped_reads_back(engine_id: Seq<u8>, pdu: Seq<u8>, pad: Seq<u8>)
        requires engine_id.len() <= 65535, (enc_octets(engine_id) + enc_octets(Seq::<u8>::empty()) + pdu).len() <= 65535
        ensures ({
            let s = enc_scoped(engine_id, pdu) + pad;
            let c0 = spec_content(s);
            let c1 = spec_rest(c0);
            &&& spec_header(s) is Some && spec_header(s)->Some_0.tag == 16 && spec_header(s)->Some_0.constructed
            &&& spec_rest(s) == pad
            &&& spec_content(c0) == engine_id
            &&& spec_content(c1).len() == 0
            &&& spec_rest(c1) == pdu
        })
    {
        // the readers are used through lemma_tlv_reads_back only: their bodies stay folded (keeps the query small and stable)
        hide(spec_header);
        hide(spec_content);
        hide(spec_rest);
        let e = Seq::<u8>::empty();
        let inner = enc_octets(engine_id) + enc_octets(e) + pdu;
        lemma_tlv_reads_back(0x30, inner, pad);
        assert(inner =~= enc_octets(engine_id) + (enc_octets(e) + pdu));
        lemma_tlv_reads_back(4, engine_id, enc_octets(e) + pdu);
        lemma_tlv_reads_back(4, e, pdu);
    }

    // SNMPv3Message
    pub proof fn lemma_v3_reads_back(msg_id: i64, flags: u8, usm: Seq<u8>, data: Seq<u8>)
        requires
            usm.len() <= 65535,
            (enc_int(3) + tlv(0x30, enc_int(msg_id as int) + enc_int(2048) + tlv(4, seq![flags]) + enc_int(3)) + tlv(4, usm) + data).len() <= 65535,
        ensures ({
            let m = enc_v3(msg_id as int, flags, usm, data);
            let env = spec_content(m);
            let hd = spec_rest(env);
            let g0 = spec_content(hd);
            let g1 = spec_rest(g0);
            let g2 = spec_rest(g1);
            let g3 = spec_rest(g2);
            let sp = spec_rest(hd);
            &&& spec_header(m) is Some && spec_header(m)->Some_0.tag == 16 && spec_header(m)->Some_0.constructed
            &&& spec_rest(m).len() == 0
            &&& twos(spec_content(env)) == 3
            &&& twos(spec_content(g0)) == msg_id
            &&& twos(spec_content(g1)) == 2048
            &&& spec_content(g2) == seq![flags]
            &&& twos(spec_content(g3)) == 3
            &&& spec_header(sp) is Some && spec_header(sp)->Some_0.tag == 4
            &&& spec_content(sp) == usm
            &&& spec_rest(sp) == data
        })
    {
        // the readers are used through lemma_tlv_reads_back only: their bodies stay folded (keeps the query small and stable)
        hide(spec_header);
        hide(spec_content);
        hide(spec_rest);
        let g = enc_int(msg_id as int) + enc_int(2048) + tlv(4, seq![flags]) + enc_int(3);
        let inner = enc_int(3) + tlv(0x30, g) + tlv(4, usm) + data;
        let m = enc_v3(msg_id as int, flags, usm, data);
        assert(m =~= tlv(0x30, inner) + Seq::<u8>::empty());
        lemma_tlv_reads_back(0x30, inner, Seq::<u8>::empty());
        assert(inner =~= enc_int(3) + (tlv(0x30, g) + (tlv(4, usm) + data)));
        lemma_enc_int_reads_back(3i64, tlv(0x30, g) + (tlv(4, usm) + data));
        lemma_tlv_len(2, int_octets(msg_id as int));
        lemma_tlv_len(2, int_octets(2048));
        lemma_tlv_len(2, int_octets(3));
        lemma_i64_roundtrip(msg_id);
        lemma_i64_roundtrip(2048i64);
        lemma_i64_roundtrip(3i64);
        lemma_tlv_reads_back(0x30, g, tlv(4, usm) + data);
        let t3 = enc_int(3);
        let t2 = tlv(4, seq![flags]) + t3;
        let t1 = enc_int(2048) + t2;
        assert(g =~= enc_int(msg_id as int) + t1);
        lemma_enc_int_reads_back(msg_id, t1);
        lemma_enc_int_reads_back(2048i64, t2);
        lemma_tlv_reads_back(4, seq![flags], t3);
        assert(t3 =~= enc_int(3) + Seq::<u8>::empty());
        lemma_enc_int_reads_back(3i64, Seq::<u8>::empty());
        lemma_tlv_reads_back(4, usm, data);
    }
}
