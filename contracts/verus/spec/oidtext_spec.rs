// What a dotted-decimal text denotes, and its canonical X.690 §8.19 contents octets.
pub mod oidtext_spec {
    use vstd::prelude::*;

    // the parts of the text between dots, each parsed as an unsigned decimal that fits u32, or None when a part is empty,
    // signed wrongly, non-numeric or too large.  UNINTERPRETED: str::split(".") and str::parse::<u32>() are std (trusted);
    // the property's acceptance set is phrased over these parts.
    pub uninterp spec fn text_arcs(text: &str) -> Seq<Option<u32>>;

    // 7-bit groups of v, most significant first (at least one group)
    pub open spec fn groups(v: nat) -> Seq<u8>
        decreases v
    {
        if v < 128 { seq![v as u8] } else { groups(v / 128) + seq![(v % 128) as u8] }
    }
    // X.690 §8.19.2: bit 8 of each octet but the last is one; fewest octets possible (no leading 0x80 since groups() has none)
    pub open spec fn base128(v: nat) -> Seq<u8> {
        let g = groups(v);
        Seq::new(g.len(), |i: int| if i + 1 < g.len() { (g[i] + 128) as u8 } else { g[i] })
    }
    pub open spec fn enc_tail(arcs: Seq<Option<u32>>, from: int) -> Seq<u8>
        decreases arcs.len() - from
    {
        if from < 0 || from >= arcs.len() { Seq::<u8>::empty() }
        else { base128(arcs[from]->Some_0 as nat) + enc_tail(arcs, from + 1) }
    }
    pub open spec fn all_some(arcs: Seq<Option<u32>>) -> bool {
        forall|k: int| 0 <= k < arcs.len() ==> arcs[k] is Some
    }
    // accepted: at least two arcs, all numeric, first 0..2, second 0..39
    pub open spec fn acceptable(arcs: Seq<Option<u32>>) -> bool {
        arcs.len() >= 2 && all_some(arcs) && arcs[0]->Some_0 <= 2 && arcs[1]->Some_0 <= 39
    }
    // §8.19.4: first octet 40*X + Y, then every further arc in base 128
    pub open spec fn contents(arcs: Seq<Option<u32>>) -> Seq<u8> {
        seq![(40 * arcs[0]->Some_0 + arcs[1]->Some_0) as u8] + enc_tail(arcs, 2)
    }

    pub proof fn lemma_groups_small(v: nat)
        ensures
            v < 128 ==> groups(v) == seq![v as u8],
            128 <= v < 16384 ==> groups(v) == seq![(v / 128) as u8, (v % 128) as u8],
            16384 <= v < 2097152 ==> groups(v) == seq![(v / 16384) as u8, (v / 128 % 128) as u8, (v % 128) as u8],
            2097152 <= v < 268435456 ==> groups(v) == seq![(v / 2097152) as u8, (v / 16384 % 128) as u8, (v / 128 % 128) as u8, (v % 128) as u8],
            268435456 <= v < 34359738368 ==> groups(v) == seq![(v / 268435456) as u8, (v / 2097152 % 128) as u8, (v / 16384 % 128) as u8, (v / 128 % 128) as u8, (v % 128) as u8],
    {
        reveal_with_fuel(groups, 6);
        if 128 <= v < 16384 {
            assert(groups(v) =~= seq![(v / 128) as u8, (v % 128) as u8]);
        }
        if 16384 <= v < 2097152 {
            assert(v / 128 / 128 == v / 16384);
            assert(groups(v / 128) =~= seq![(v / 16384) as u8, (v / 128 % 128) as u8]);
            assert(groups(v) =~= seq![(v / 16384) as u8, (v / 128 % 128) as u8, (v % 128) as u8]);
        }
        if 2097152 <= v < 268435456 {
            assert(v / 128 / 128 == v / 16384 && v / 16384 / 128 == v / 2097152);
            assert(groups(v / 16384) =~= seq![(v / 2097152) as u8, (v / 16384 % 128) as u8]);
            assert(groups(v / 128) =~= seq![(v / 2097152) as u8, (v / 16384 % 128) as u8, (v / 128 % 128) as u8]);
            assert(groups(v) =~= seq![(v / 2097152) as u8, (v / 16384 % 128) as u8, (v / 128 % 128) as u8, (v % 128) as u8]);
        }
        if 268435456 <= v < 34359738368 {
            assert(v / 128 / 128 == v / 16384 && v / 16384 / 128 == v / 2097152 && v / 2097152 / 128 == v / 268435456);
            assert(groups(v / 2097152) =~= seq![(v / 268435456) as u8, (v / 2097152 % 128) as u8]);
            assert(groups(v / 16384) =~= seq![(v / 268435456) as u8, (v / 2097152 % 128) as u8, (v / 16384 % 128) as u8]);
            assert(groups(v / 128) =~= seq![(v / 268435456) as u8, (v / 2097152 % 128) as u8, (v / 16384 % 128) as u8, (v / 128 % 128) as u8]);
            assert(groups(v) =~= seq![(v / 268435456) as u8, (v / 2097152 % 128) as u8, (v / 16384 % 128) as u8, (v / 128 % 128) as u8, (v % 128) as u8]);
        }
    }

    // ---- BER -> dotted text (X.690 §8.19: sub-identifiers are base-128 big-endian groups, bit 8 set on all but the last
    // octet of a group; the first sub-identifier is 40*X + Y with X in 0..2). Reading the contents octets left to right:
    pub struct PrintState {
        pub text: Seq<char>,   // text emitted so far
        pub pending: nat,      // value of the sub-identifier being read
        pub started: bool,     // the first sub-identifier (two arcs) has been emitted
        pub fits: bool,        // no sub-identifier so far exceeded 2^32 - 1 (the property speaks of arcs <= 2^32-1 only)
    }
    pub open spec fn print_state(s: Seq<u8>) -> PrintState
        decreases s.len()
    {
        if s.len() == 0 { PrintState { text: Seq::<char>::empty(), pending: 0, started: false, fits: true } }
        else {
            let p = print_state(s.drop_last());
            let v = p.pending * 128 + (s.last() % 128) as nat;
            let fits = p.fits && v <= 0xffff_ffff;
            if s.last() >= 128 { PrintState { text: p.text, pending: v, started: p.started, fits } }
            else if !p.started {
                let x: nat = if v / 40 > 2 { 2 } else { v / 40 };
                PrintState { text: p.text + crate::shim::dec(x) + seq!['.'] + crate::shim::dec((v - 40 * x) as nat), pending: 0, started: true, fits }
            } else {
                PrintState { text: p.text + seq!['.'] + crate::shim::dec(v), pending: 0, started: true, fits }
            }
        }
    }
    pub open spec fn oid_text(c: Seq<u8>) -> Seq<char> { print_state(c).text }
}
