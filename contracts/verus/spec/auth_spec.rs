// RFC 3414 Appendix A.2 (password to key, key localization) and RFC 2104 / RFC 3414 §6.3.1 (HMAC-96), written from the RFCs.
pub mod auth_spec {
    use vstd::prelude::*;

    // the first n octets of the password repeated as often as necessary (A.2.1 / A.2.2: "forming a string of length
    // 1,048,576 octets by repeating the value of the password as often as necessary, truncating accordingly")
    pub open spec fn expand(p: Seq<u8>, n: nat) -> Seq<u8>
        recommends p.len() > 0
    {
        Seq::new(n, |i: int| p[i % (p.len() as int)])
    }

    pub open spec fn megabyte() -> nat { 1_048_576 }

    // Kul = H(Ku || snmpEngineID || Ku)
    pub open spec fn localize_input(ku: Seq<u8>, engine_id: Seq<u8>) -> Seq<u8> { ku + engine_id + ku }

    // s with the octets [at, at + w.len()) replaced by w
    pub open spec fn splice(s: Seq<u8>, at: int, w: Seq<u8>) -> Seq<u8>
        recommends 0 <= at, at + w.len() <= s.len()
    {
        s.subrange(0, at) + w + s.subrange(at + w.len(), s.len() as int)
    }

    pub open spec fn xor_pad(k: Seq<u8>, pad: u8) -> Seq<u8> {
        Seq::new(64, |i: int| if i < k.len() { k[i] ^ pad } else { pad })
    }

    // RFC 2104 HMAC with a 64-octet block, key zero-extended; RFC 3414 §6.3.1/§7.3.1: the inner digest is truncated to
    // the key size before the outer hash exactly when digest size == key size (MD5: 16, SHA-1: 20), output truncated to n
    pub open spec fn hmac_trunc(h: spec_fn(Seq<u8>) -> Seq<u8>, key: Seq<u8>, ks: nat, msg: Seq<u8>, n: nat) -> Seq<u8> {
        h(xor_pad(key, 0x5c) + h(xor_pad(key, 0x36) + msg).subrange(0, ks as int)).subrange(0, n as int)
    }

    pub proof fn lemma_expand_whole(p: Seq<u8>, a: nat)
        requires p.len() > 0, a % p.len() == 0
        ensures expand(p, a) + p == expand(p, a + p.len())
    {
        let l = p.len() as int;
        assert forall|i: int| 0 <= i < a + l implies (expand(p, a) + p)[i] == expand(p, a + p.len())[i] by {
            if i >= a {
                // (i - a) + a == i, a % l == 0  ==> i % l == (i - a) % l == i - a
                vstd::arithmetic::div_mod::lemma_mod_add_multiples_vanish(i - a, l);
                vstd::arithmetic::div_mod::lemma_fundamental_div_mod(a as int, l);
                vstd::arithmetic::div_mod::lemma_mod_multiples_vanish((a as int) / l, i - a, l);
                vstd::arithmetic::div_mod::lemma_small_mod((i - a) as nat, l as nat);
            }
        }
        assert(expand(p, a) + p =~= expand(p, a + p.len()));
    }

    pub proof fn lemma_expand_part(p: Seq<u8>, a: nat, rem: nat)
        requires p.len() > 0, a % p.len() == 0, rem <= p.len()
        ensures expand(p, a) + p.subrange(0, rem as int) == expand(p, a + rem)
    {
        let l = p.len() as int;
        assert forall|i: int| 0 <= i < a + rem implies (expand(p, a) + p.subrange(0, rem as int))[i] == expand(p, a + rem)[i] by {
            if i >= a {
                vstd::arithmetic::div_mod::lemma_fundamental_div_mod(a as int, l);
                vstd::arithmetic::div_mod::lemma_mod_multiples_vanish((a as int) / l, i - a, l);
                vstd::arithmetic::div_mod::lemma_small_mod((i - a) as nat, l as nat);
            }
        }
        assert(expand(p, a) + p.subrange(0, rem as int) =~= expand(p, a + rem));
    }
}
