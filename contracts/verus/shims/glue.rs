// Stand-ins for the names src/socket/snmpsocket.rs::_send_inner / _recv_inner mention (unit `glue`, C03 / C04 / C17).
// Everything here is opaque: the two functions are checked for HOW they chain the calls, by way of uninterpreted
// provenance predicates (what a datagram handed to send() must be, where an error / a delivered object may come from).
pub mod socket2 {
    use vstd::prelude::*;
    #[verifier::external_body]
    pub struct Socket { _p: core::marker::PhantomData<u8> }
    #[verifier::external_body]
    pub struct IoError { _p: core::marker::PhantomData<u8> }
    impl IoError {
        #[verifier::external_body]
        pub fn to_string(&self) -> (r: String) { unimplemented!() }
    }
    // "these octets are the image of a request that push_pdu built successfully"
    pub uninterp spec fn is_request_image(data: Seq<u8>) -> bool;
    impl Socket {
        // a datagram may be handed to the kernel only if it is a complete request image (C17: nothing is sent after a
        // failed push_pdu; C03: what is sent is what push_pdu built)
        #[verifier::external_body]
        pub fn send(&mut self, data: &[u8]) -> (r: Result<usize, IoError>)
            requires is_request_image(data@)
        { unimplemented!() }
    }
}
pub mod pyo3 {
    use vstd::prelude::*;
    use crate::error::SnmpError;
    #[verifier::external_body]
    pub struct PyErr { _p: core::marker::PhantomData<u8> }
    pub type PyResult<T> = Result<T, PyErr>;
    #[verifier::external_body]
    pub struct PyObject { _p: core::marker::PhantomData<u8> }
    // the Python exception an SnmpError becomes (class table decided under C07)
    pub uninterp spec fn pyerr_of(e: SnmpError) -> PyErr;
    impl From<SnmpError> for PyErr {
        #[verifier::external_body]
        fn from(value: SnmpError) -> (r: PyErr) { unimplemented!() }
    }
    impl vstd::std_specs::convert::FromSpecImpl<SnmpError> for PyErr {
        open spec fn obeys_from_spec() -> bool { true }
        open spec fn from_spec(value: SnmpError) -> PyErr { pyerr_of(value) }
    }
    pub mod prelude {
        pub use super::{PyErr, PyObject, PyResult};
    }
}
pub mod snmp {
    pub mod pdu {
        use vstd::prelude::*;
        #[verifier::external_body]
        pub struct SnmpPdu<'a> { _p: core::marker::PhantomData<&'a u8> }
        impl<'a> SnmpPdu<'a> {
            // ghost identity of a decoded PDU
            pub uninterp spec fn id(&self) -> int;
        }
    }
    pub mod op {
        use vstd::prelude::*;
        #[verifier::external_body]
        pub struct GetIter { _p: core::marker::PhantomData<u8> }
        pub trait PyOp<'a, T> where Self: Sized {}
    }
}
pub mod glue {
    use vstd::prelude::*;
    use crate::error::SnmpError;
    use crate::pyo3::{PyErr, PyObject, PyResult, pyerr_of};
    use crate::snmp::pdu::SnmpPdu;
    use crate::snmp::op::{GetIter, PyOp};
    use crate::buf_pool::BufferPool;
    // buf::get_buffer_pool(): the process-wide pool (OnceLock; opaque)
    #[verifier::external_body]
    pub fn get_buffer_pool() -> (r: &'static BufferPool) { unimplemented!() }
    // RW stand-in for `Self::Message::try_from(data)` (a call through the TryFrom bound of the associated type): the same
    // call, with the provenance of its error recorded
    #[verifier::external_body]
    pub fn decode<'a, M: TryFrom<&'a [u8], Error = SnmpError>>(data: &'a [u8]) -> (r: Result<M, SnmpError>)
        ensures r matches Err(e) ==> from_decoder(e)
    { M::try_from(data) }
    // RW stand-in for `Python::with_gil(|py| Ok(T::to_python(pdu, iter, py)?.into()))`
    #[verifier::external_body]
    pub fn deliver<'a, T: PyOp<'a, V>, V: 'a>(pdu: &SnmpPdu, iter: Option<&mut GetIter>) -> (r: PyResult<PyObject>)
        ensures
            r matches Ok(o) ==> delivered_from(o, pdu.id()),
            r matches Err(e) ==> conversion_error(e),
    { unimplemented!() }
    // provenance predicates
    pub uninterp spec fn from_socket(e: SnmpError) -> bool;     // an error reported by the socket (timeout, refused, OS error)
    pub uninterp spec fn from_decoder(e: SnmpError) -> bool;    // the datagram did not decode as a message of this version
    pub uninterp spec fn accepted(pdu_id: int) -> bool;         // unwrap_pdu returned this PDU
    pub uninterp spec fn delivered_from(obj: PyObject, pdu_id: int) -> bool;
    pub uninterp spec fn conversion_error(e: PyErr) -> bool;    // to_python refused the accepted PDU (documented exceptions)
}
