// Helpers that stand for std constructs Verus has no model of.
pub mod shim {
    use vstd::prelude::*;
    // N2: `format!(..)` — the resulting String is unconstrained (no property reads it).
    #[verifier::external_body]
    pub fn fmt_opaque() -> (r: String) {
        String::new()
    }

    // RW stand-in for the statement
    //     for (idx, (x, y)) in A.iter().zip(B.iter()).enumerate() { iv[idx] = x ^ y; }
    // (iterator zip/enumerate over references is outside Verus). ASSUMED effect: iv[i] = A[i] ^ B[i] for i < min(|A|,|B|),
    // the rest of iv unchanged; it indexes iv[idx] for idx < min(|A|,|B|), hence the precondition.
    #[verifier::external_body]
    pub fn xor_zip_into(iv: &mut [u8; 8], a: &[u8], b: &[u8])
        requires a@.len() <= 8 || b@.len() <= 8
        ensures
            forall|i: int| 0 <= i < 8 ==> #[trigger] final(iv)@[i] == (if i < a@.len() && i < b@.len() { a@[i] ^ b@[i] } else { old(iv)@[i] }),
    {
        for (idx, (x, y)) in a.iter().zip(b.iter()).enumerate() {
            iv[idx] = x ^ y;
        }
    }

    // RW stand-ins for `write!(r, "{}.{}", x, y)` and `write!(r, ".{}", v)` on a String (the fmt machinery is outside
    // Verus). ASSUMED effect: the decimal text of the numbers (std Display for u32, uninterpreted `dec`) and the literal
    // dots are appended; fmt::Write for String never fails (std: its write_str always returns Ok).
    pub uninterp spec fn dec(n: nat) -> Seq<char>;
    pub struct FmtError;
    #[verifier::external_body]
    pub fn write_two(r: &mut String, x: u32, y: u32) -> (res: Result<(), FmtError>)
        ensures res is Ok, final(r)@ == old(r)@ + dec(x as nat) + seq!['.'] + dec(y as nat)
    {
        use std::fmt::Write;
        write!(r, "{}.{}", x, y).map_err(|_| FmtError)
    }
    #[verifier::external_body]
    pub fn write_dot(r: &mut String, v: u32) -> (res: Result<(), FmtError>)
        ensures res is Ok, final(r)@ == old(r)@ + seq!['.'] + dec(v as nat)
    {
        use std::fmt::Write;
        write!(r, ".{}", v).map_err(|_| FmtError)
    }
}
