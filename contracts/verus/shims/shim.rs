// Helpers that stand for std constructs Verus has no model of.
pub mod shim {
    use vstd::prelude::*;
    // N2: `format!(..)` — the resulting String is unconstrained (no property reads it).
    #[verifier::external_body]
    pub fn fmt_opaque() -> (r: String) {
        String::new()
    }
}
