// Stand-ins for the RustCrypto cipher crates as gufo_snmp uses them (cipher 0.4, cbc 0.1, cfb-mode 0.8, des 0.8, aes 0.8)
// and for rand 0.9. The block ciphers and modes themselves are TRUSTED: encryption / decryption are UNINTERPRETED functions
// of (key, iv, input) with the single axiom dec(enc(p)) == p; what is specified is the calling convention the crate relies
// on: which key / IV lengths are accepted, when a call returns Err, and which octets of the buffers are written.
pub mod cipher {
    use vstd::prelude::*;
    pub mod block_padding {
        pub struct NoPadding;
    }
    // marker traits imported by the sources (methods are inherent on the stand-in types)
    pub trait KeyIvInit {}
    pub trait BlockEncryptMut {}
    pub trait BlockDecryptMut {}
    pub trait AsyncStreamCipher {}

    // a block cipher algorithm: key and block length
    pub trait Alg {
        spec fn key_len() -> nat;
        spec fn block_len() -> nat;
    }
    pub struct InvalidLength;
    pub struct PadError;
    pub struct UnpadError;

    // uninterpreted mode functions, indexed by mode id (0 = CBC, 1 = CFB), key length, block length
    pub uninterp spec fn mode_enc(mode: int, kl: nat, key: Seq<u8>, iv: Seq<u8>, pt: Seq<u8>) -> Seq<u8>;
    pub uninterp spec fn mode_dec(mode: int, kl: nat, key: Seq<u8>, iv: Seq<u8>, ct: Seq<u8>) -> Seq<u8>;
    pub broadcast proof fn axiom_dec_enc(mode: int, kl: nat, key: Seq<u8>, iv: Seq<u8>, pt: Seq<u8>)
        ensures #[trigger] mode_dec(mode, kl, key, iv, mode_enc(mode, kl, key, iv, pt)) == pt
    { admit(); }
    pub broadcast proof fn axiom_enc_len(mode: int, kl: nat, key: Seq<u8>, iv: Seq<u8>, pt: Seq<u8>)
        ensures #[trigger] mode_enc(mode, kl, key, iv, pt).len() == pt.len()
    { admit(); }
    pub broadcast proof fn axiom_dec_len(mode: int, kl: nat, key: Seq<u8>, iv: Seq<u8>, ct: Seq<u8>)
        ensures #[trigger] mode_dec(mode, kl, key, iv, ct).len() == ct.len()
    { admit(); }
    pub broadcast group group_cipher_axioms {
        axiom_dec_enc,
        axiom_enc_len,
        axiom_dec_len,
    }
}
pub mod des {
    use vstd::prelude::*;
    pub struct Des;
    impl crate::cipher::Alg for Des {
        open spec fn key_len() -> nat { 8 }
        open spec fn block_len() -> nat { 8 }
    }
}
pub mod aes {
    use vstd::prelude::*;
    pub struct Aes128;
    impl crate::cipher::Alg for Aes128 {
        open spec fn key_len() -> nat { 16 }
        open spec fn block_len() -> nat { 16 }
    }
}
pub mod cbc {
    use vstd::prelude::*;
    use crate::cipher::{Alg, InvalidLength, PadError, UnpadError, mode_enc, mode_dec};

    #[verifier::external_body]
    #[verifier::reject_recursive_types(C)]
    pub struct Encryptor<C: Alg> { _p: core::marker::PhantomData<C> }
    #[verifier::external_body]
    #[verifier::reject_recursive_types(C)]
    pub struct Decryptor<C: Alg> { _p: core::marker::PhantomData<C> }

    impl<C: Alg> Encryptor<C> {
        pub uninterp spec fn key(&self) -> Seq<u8>;
        pub uninterp spec fn iv(&self) -> Seq<u8>;
        // KeyIvInit::new_from_slices: Err(InvalidLength) unless key and IV have the algorithm's sizes
        #[verifier::external_body]
        pub fn new_from_slices(key: &[u8], iv: &[u8]) -> (r: Result<Self, InvalidLength>)
            ensures
                r is Ok <==> key@.len() == C::key_len() && iv@.len() == C::block_len(),
                r is Ok ==> r->Ok_0.key() == key@ && r->Ok_0.iv() == iv@,
        { unimplemented!() }
        // BlockEncryptMut::encrypt_padded_mut::<NoPadding>: msg_len must be a multiple of the block size and fit the buffer
        #[verifier::external_body]
        pub fn encrypt_padded_mut<'a, P>(self, buf: &'a mut [u8], msg_len: usize) -> (r: Result<&'a [u8], PadError>)
            ensures
                final(buf)@.len() == old(buf)@.len(),
                r is Ok <==> msg_len <= old(buf)@.len() && msg_len as nat % C::block_len() == 0,
                r is Ok ==> final(buf)@.subrange(0, msg_len as int) == mode_enc(0, C::key_len(), self.key(), self.iv(), old(buf)@.subrange(0, msg_len as int))
                    && final(buf)@.subrange(msg_len as int, old(buf)@.len() as int) == old(buf)@.subrange(msg_len as int, old(buf)@.len() as int)
                    && r->Ok_0@ == final(buf)@.subrange(0, msg_len as int),
        { unimplemented!() }
    }
    impl<C: Alg> Decryptor<C> {
        pub uninterp spec fn key(&self) -> Seq<u8>;
        pub uninterp spec fn iv(&self) -> Seq<u8>;
        #[verifier::external_body]
        pub fn new_from_slices(key: &[u8], iv: &[u8]) -> (r: Result<Self, InvalidLength>)
            ensures
                r is Ok <==> key@.len() == C::key_len() && iv@.len() == C::block_len(),
                r is Ok ==> r->Ok_0.key() == key@ && r->Ok_0.iv() == iv@,
        { unimplemented!() }
        // BlockDecryptMut::decrypt_padded_b2b_mut::<NoPadding>: input must be a multiple of the block size, output at
        // least as long; writes out[..in.len()]
        #[verifier::external_body]
        pub fn decrypt_padded_b2b_mut<'a, P>(self, in_buf: &[u8], out_buf: &'a mut [u8]) -> (r: Result<&'a [u8], UnpadError>)
            ensures
                final(out_buf)@.len() == old(out_buf)@.len(),
                r is Ok ==> in_buf@.len() <= old(out_buf)@.len() && in_buf@.len() % C::block_len() == 0
                    && final(out_buf)@.subrange(0, in_buf@.len() as int) == mode_dec(0, C::key_len(), self.key(), self.iv(), in_buf@)
                    && final(out_buf)@.subrange(in_buf@.len() as int, old(out_buf)@.len() as int) == old(out_buf)@.subrange(in_buf@.len() as int, old(out_buf)@.len() as int),
        { unimplemented!() }
    }
}
pub mod cfb_mode {
    use vstd::prelude::*;
    use crate::cipher::{Alg, InvalidLength, PadError, mode_enc, mode_dec};

    #[verifier::external_body]
    #[verifier::reject_recursive_types(C)]
    pub struct Encryptor<C: Alg> { _p: core::marker::PhantomData<C> }
    #[verifier::external_body]
    #[verifier::reject_recursive_types(C)]
    pub struct Decryptor<C: Alg> { _p: core::marker::PhantomData<C> }
    pub struct StreamCipherError;

    impl<C: Alg> Encryptor<C> {
        pub uninterp spec fn key(&self) -> Seq<u8>;
        pub uninterp spec fn iv(&self) -> Seq<u8>;
        #[verifier::external_body]
        pub fn new_from_slices(key: &[u8], iv: &[u8]) -> (r: Result<Self, InvalidLength>)
            ensures
                r is Ok <==> key@.len() == C::key_len() && iv@.len() == C::block_len(),
                r is Ok ==> r->Ok_0.key() == key@ && r->Ok_0.iv() == iv@,
        { unimplemented!() }
        #[verifier::external_body]
        pub fn encrypt_padded_mut<'a, P>(self, buf: &'a mut [u8], msg_len: usize) -> (r: Result<&'a [u8], PadError>)
            ensures
                final(buf)@.len() == old(buf)@.len(),
                r is Ok <==> msg_len <= old(buf)@.len() && msg_len as nat % C::block_len() == 0,
                r is Ok ==> final(buf)@.subrange(0, msg_len as int) == mode_enc(1, C::key_len(), self.key(), self.iv(), old(buf)@.subrange(0, msg_len as int))
                    && final(buf)@.subrange(msg_len as int, old(buf)@.len() as int) == old(buf)@.subrange(msg_len as int, old(buf)@.len() as int)
                    && r->Ok_0@ == final(buf)@.subrange(0, msg_len as int),
        { unimplemented!() }
    }
    impl<C: Alg> Decryptor<C> {
        pub uninterp spec fn key(&self) -> Seq<u8>;
        pub uninterp spec fn iv(&self) -> Seq<u8>;
        #[verifier::external_body]
        pub fn new_from_slices(key: &[u8], iv: &[u8]) -> (r: Result<Self, InvalidLength>)
            ensures
                r is Ok <==> key@.len() == C::key_len() && iv@.len() == C::block_len(),
                r is Ok ==> r->Ok_0.key() == key@ && r->Ok_0.iv() == iv@,
        { unimplemented!() }
        // AsyncStreamCipher::decrypt_b2b: Err unless both buffers have the same length; any length is accepted (stream mode)
        #[verifier::external_body]
        pub fn decrypt_b2b(self, in_buf: &[u8], out_buf: &mut [u8]) -> (r: Result<(), StreamCipherError>)
            ensures
                final(out_buf)@.len() == old(out_buf)@.len(),
                r is Ok <==> in_buf@.len() == old(out_buf)@.len(),
                r is Ok ==> final(out_buf)@ == mode_dec(1, C::key_len(), self.key(), self.iv(), in_buf@),
        { unimplemented!() }
    }
}
pub mod rand {
    use vstd::prelude::*;
    pub trait Rng {}
    #[verifier::external_body]
    pub struct ThreadRng { _p: core::marker::PhantomData<u8> }
    #[verifier::external_body]
    pub fn rng() -> ThreadRng { unimplemented!() }
    // rng.random(): any value of the requested type
    pub trait RandomValue: Sized {}
    impl RandomValue for u32 {}
    impl RandomValue for u64 {}
    impl RandomValue for i64 {}
    impl ThreadRng {
        #[verifier::external_body]
        pub fn random<T: RandomValue>(&mut self) -> T { unimplemented!() }
    }
}
