// Specifications assumed for std functions that vstd does not (fully) specify.
pub mod stdspec {
    use vstd::prelude::*;
    use std::borrow::Cow;

    // <Cow<[u8]> as Deref>::deref returns the borrowed / owned slice: same octets as the Cow's view.
    pub uninterp spec fn cow_deref_ok<'a, B: ?Sized + ToOwned>(c: &Cow<'a, B>, r: &B) -> bool;
    pub assume_specification<'a, 'b, B: ?Sized + ToOwned> [<Cow<'a, B> as core::ops::Deref>::deref] (c: &'b Cow<'a, B>) -> (r: &'b B)
        ensures cow_deref_ok(c, r);
    pub broadcast proof fn axiom_cow_deref_u8<'a>(c: &Cow<'a, [u8]>, r: &[u8])
        requires #[trigger] cow_deref_ok(c, r)
        ensures r@ == c@
    { admit(); }

    // <[T]>::to_vec clones the elements
    pub assume_specification<T: Clone> [<[T]>::to_vec] (s: &[T]) -> (r: Vec<T>)
        ensures r@.len() == s@.len(), forall|k: int| 0 <= k < s@.len() ==> cloned(s@[k], #[trigger] r@[k]);
    pub broadcast proof fn axiom_to_vec_u8(s: &[u8], r: Vec<u8>)
        requires r@.len() == s@.len(), forall|k: int| 0 <= k < s@.len() ==> cloned(s@[k], #[trigger] r@[k])
        ensures #![trigger r@.len(), s@.len()] r@ == s@
    {
        assert(r@ =~= s@);
    }

    // <[T]>::clone_from_slice (copy_from_slice is specified by vstd): panics unless the lengths are equal (documented), then dst == src
    pub assume_specification<T: Clone> [<[T]>::clone_from_slice] (dst: &mut [T], src: &[T])
        requires old(dst)@.len() == src@.len()
        ensures final(dst)@.len() == src@.len(), forall|k: int| 0 <= k < src@.len() ==> cloned(src@[k], #[trigger] final(dst)@[k]);
    // for u8, a clone is a copy
    pub broadcast proof fn axiom_cloned_u8(a: u8, b: u8)
        requires #[trigger] cloned(a, b)
        ensures a == b
    { admit(); }

    // big-endian octets of fixed-width integers (u32::to_be_bytes / u64::to_be_bytes)
    pub open spec fn be32(v: u32) -> Seq<u8> {
        seq![(v >> 24) as u8, ((v >> 16) & 0xff) as u8, ((v >> 8) & 0xff) as u8, (v & 0xff) as u8]
    }
    pub open spec fn be64(v: u64) -> Seq<u8> {
        be32((v >> 32) as u32) + be32((v & 0xffff_ffff) as u32)
    }
    // RW stand-ins for u32::to_be_bytes / u64::to_be_bytes (their std signature uses an anonymous const array length that
    // assume_specification cannot name): ASSUMED to return the big-endian octets
    #[verifier::external_body]
    pub fn u32_be(v: u32) -> (r: [u8; 4])
        ensures r@ == be32(v)
    { v.to_be_bytes() }
    #[verifier::external_body]
    pub fn u64_be(v: u64) -> (r: [u8; 8])
        ensures r@ == be64(v)
    { v.to_be_bytes() }
    pub assume_specification<T, const N: usize> [<[T; N] as AsRef<[T]>>::as_ref] (a: &[T; N]) -> (r: &[T])
        ensures r@ == a@;

    // the UTF-8 octets of a String (uninterpreted; String::as_bytes and <String as AsRef<[u8]>>::as_ref both return them)
    pub uninterp spec fn string_bytes(s: &String) -> Seq<u8>;
    pub assume_specification [String::as_bytes] (s: &String) -> (r: &[u8])
        ensures r@ == string_bytes(s);
    pub assume_specification [<String as AsRef<[u8]>>::as_ref] (s: &String) -> (r: &[u8])
        ensures r@ == string_bytes(s);

    // `==` / `!=` between octet slices (and slice vs Vec) compare the octets (std: element-wise PartialEq)
    pub broadcast proof fn axiom_slice_ref_eq(a: &[u8], b: &[u8])
        ensures
            #[trigger] <&[u8] as vstd::std_specs::cmp::PartialEqSpec<&[u8]>>::eq_spec(&a, &b) == (a@ == b@),
            <&[u8] as vstd::std_specs::cmp::PartialEqSpec<&[u8]>>::obeys_eq_spec(),
    { admit(); }
    // `&[T] == Vec<U>` (alloc::vec::partial_eq): element-wise; stated for octets
    pub uninterp spec fn slice_vec_eq_ok<T, U, A: core::alloc::Allocator>(a: &[T], b: &Vec<U, A>, r: bool) -> bool;
    pub assume_specification<'a, T: PartialEq<U>, U, A: core::alloc::Allocator> [<&'a [T] as PartialEq<Vec<U, A>>>::eq] (a: &&'a [T], b: &Vec<U, A>) -> (r: bool)
        ensures slice_vec_eq_ok(*a, b, r);
    pub broadcast proof fn axiom_slice_vec_eq(a: &[u8], b: &Vec<u8>, r: bool)
        requires #[trigger] slice_vec_eq_ok(a, b, r)
        ensures r == (a@ == b@)
    { admit(); }

    // `==` AND `!=` between octet slices and Vecs in the combinations std implements (alloc::vec::partial_eq, element-wise). `!=` is
    // the provided method PartialEq::ne, which vstd specifies through eq_spec / obeys_eq_spec of the implementation: stating those
    // covers both operators, so that `a != b` and `!(a == b)` mean the same to the verifier (harmless-change h3-02)
    pub broadcast proof fn axiom_eq_slice_vec(a: &[u8], b: &Vec<u8>)
        ensures #[trigger] <&[u8] as vstd::std_specs::cmp::PartialEqSpec<Vec<u8>>>::eq_spec(&a, b) == (a@ == b@) { admit(); }
    pub broadcast proof fn axiom_obeys_slice_vec()
        ensures #[trigger] <&[u8] as vstd::std_specs::cmp::PartialEqSpec<Vec<u8>>>::obeys_eq_spec() { admit(); }
    pub broadcast proof fn axiom_eq_vec_slice(a: &Vec<u8>, b: &[u8])
        ensures #[trigger] <Vec<u8> as vstd::std_specs::cmp::PartialEqSpec<&[u8]>>::eq_spec(a, &b) == (a@ == b@) { admit(); }
    pub broadcast proof fn axiom_obeys_vec_slice()
        ensures #[trigger] <Vec<u8> as vstd::std_specs::cmp::PartialEqSpec<&[u8]>>::obeys_eq_spec() { admit(); }
    pub broadcast proof fn axiom_eq_vec_vec(a: &Vec<u8>, b: &Vec<u8>)
        ensures #[trigger] <Vec<u8> as vstd::std_specs::cmp::PartialEqSpec<Vec<u8>>>::eq_spec(a, b) == (a@ == b@) { admit(); }
    pub broadcast proof fn axiom_obeys_vec_vec()
        ensures #[trigger] <Vec<u8> as vstd::std_specs::cmp::PartialEqSpec<Vec<u8>>>::obeys_eq_spec() { admit(); }

    // `==` on core::cmp::Ordering (derived PartialEq: structural)
    pub assume_specification [<core::cmp::Ordering as PartialEq>::eq] (a: &core::cmp::Ordering, b: &core::cmp::Ordering) -> (r: bool)
        ensures r == (*a == *b);

    // Rust language invariant: no slice is longer than isize::MAX octets
    pub broadcast proof fn axiom_slice_len_bound(s: &[u8])
        ensures #[trigger] s@.len() <= isize::MAX
    { admit(); }

    // String::with_capacity: an empty string (the capacity is only a hint)
    pub assume_specification [String::with_capacity] (n: usize) -> (r: String)
        ensures r@ == Seq::<char>::empty();

    pub broadcast group group_std_axioms {
        axiom_cow_deref_u8,
        axiom_slice_len_bound,
        axiom_cloned_u8,
        axiom_slice_ref_eq,
        axiom_slice_vec_eq,
        axiom_eq_slice_vec, axiom_obeys_slice_vec, axiom_eq_vec_slice, axiom_obeys_vec_slice, axiom_eq_vec_vec, axiom_obeys_vec_vec,
    }
}
