// Specifications assumed for std functions that vstd does not (fully) specify.
pub mod stdspec {
    use vstd::prelude::*;
    use std::borrow::Cow;

    // <Cow<[u8]> as Deref>::deref returns the borrowed / owned slice: same octets as the Cow's view.
    pub uninterp spec fn cow_deref_ok<'a, B: ?Sized + ToOwned>(c: &Cow<'a, B>, r: &B) -> bool;
    pub assume_specification<'a, 'b, B: ?Sized + ToOwned> [<Cow<'a, B> as core::ops::Deref>::deref] (c: &'b Cow<'a, B>) -> (r: &'b B)
        ensures cow_deref_ok(c, r);
    pub broadcast proof fn axiom_cow_deref_u8<'a>(c: &Cow<'a, [u8]>, r: &[u8])
        requires #[trigger] cow_deref_ok(c, r)
        ensures r@ == c@
    { admit(); }

    // <[T]>::to_vec clones the elements
    pub assume_specification<T: Clone> [<[T]>::to_vec] (s: &[T]) -> (r: Vec<T>)
        ensures r@.len() == s@.len(), forall|k: int| 0 <= k < s@.len() ==> cloned(s@[k], #[trigger] r@[k]);
    pub broadcast proof fn axiom_to_vec_u8(s: &[u8], r: Vec<u8>)
        requires r@.len() == s@.len(), forall|k: int| 0 <= k < s@.len() ==> cloned(s@[k], #[trigger] r@[k])
        ensures #![trigger r@.len(), s@.len()] r@ == s@
    {
        assert(r@ =~= s@);
    }

    // <[T]>::clone_from_slice (copy_from_slice is specified by vstd): panics unless the lengths are equal (documented), then dst == src
    pub assume_specification<T: Clone> [<[T]>::clone_from_slice] (dst: &mut [T], src: &[T])
        requires old(dst)@.len() == src@.len()
        ensures final(dst)@.len() == src@.len(), forall|k: int| 0 <= k < src@.len() ==> cloned(src@[k], #[trigger] final(dst)@[k]);
    // for u8, a clone is a copy
    pub broadcast proof fn axiom_cloned_u8(a: u8, b: u8)
        requires #[trigger] cloned(a, b)
        ensures a == b
    { admit(); }

    // Rust language invariant: no slice is longer than isize::MAX octets
    pub broadcast proof fn axiom_slice_len_bound(s: &[u8])
        ensures #[trigger] s@.len() <= isize::MAX
    { admit(); }

    pub broadcast group group_std_axioms {
        axiom_cow_deref_u8,
        axiom_slice_len_bound,
        axiom_cloned_u8,
    }
}
