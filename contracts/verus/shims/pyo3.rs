// Stand-in for the part of pyo3 0.24 that the op layer uses (property C07, and the Python-object side of C05/C06).
// Python objects are opaque; every object carries a GHOST value `pv()` describing what it is, and every PyErr a ghost
// `exc()` naming the exception class. pyo3's own correctness (and "a Rust panic becomes PanicException") is TRUSTED; one
// contract per pyo3 call that the crate actually makes.
pub mod pyo3 {
    use vstd::prelude::*;
    use crate::error::SnmpError;

    // what a Python object is, as far as the properties care
    pub enum PyVal {
        None,
        Int(int),                // int()
        Bytes(Seq<u8>),          // bytes
        Str(Seq<u8>),            // str, identified by what it was rendered from
        OidText(Seq<u8>),        // str: the dotted text of the OID with these contents octets
        IpText(u8, u8, u8, u8),  // str: dotted quad
        Float(int),              // float, identified by an opaque id of the f64
        Bool(bool),
        Tuple(Seq<PyVal>),
        List(Seq<PyVal>),
        Dict(Seq<(PyVal, PyVal)>),   // insertion log; a later insertion of an equal key overwrites
    }
    // exception classes
    pub enum PyExc {
        StopAsyncIteration,
        ValueError,
        RuntimeError,
        NotImplementedError,
        BlockingIOError,
        OSError,
        TimeoutError,
        SnmpError,          // base class gufo.snmp SnmpError (never raised directly)
        SnmpDecodeError,
        SnmpEncodeError,
        NoSuchInstance,
        SnmpAuthError,
    }

    #[verifier::external_body]
    #[derive(Clone, Copy)]
    pub struct Python<'py> { _p: core::marker::PhantomData<&'py u8> }
    pub struct PyAny;
    #[verifier::external_body]
    #[verifier::reject_recursive_types(T)]
    pub struct Bound<'py, T> { _p: core::marker::PhantomData<&'py T> }
    pub type PyObject = Bound<'static, PyAny>;
    #[verifier::external_body]
    pub struct PyErr { _p: core::marker::PhantomData<u8> }
    pub type PyResult<T> = Result<T, PyErr>;

    impl<'py, T> Bound<'py, T> {
        pub uninterp spec fn pv(&self) -> PyVal;
        #[verifier::external_body]
        pub fn as_any(&self) -> (r: &Bound<'py, PyAny>)
            ensures r.pv() == self.pv()
        { unimplemented!() }
        #[verifier::external_body]
        pub fn into_any(self) -> (r: Bound<'py, PyAny>)
            ensures r.pv() == self.pv()
        { unimplemented!() }
        // ToOwned::to_owned on a &Bound: a new reference to the same object
        #[verifier::external_body]
        pub fn to_owned(&self) -> (r: Bound<'py, T>)
            ensures r.pv() == self.pv()
        { unimplemented!() }
    }
    impl<'py> Python<'py> {
        // py.None()
        #[verifier::external_body]
        #[allow(non_snake_case)]
        pub fn None(self) -> (r: Bound<'py, PyAny>)
            ensures r.pv() == PyVal::None
        { unimplemented!() }
    }
    // errors are identified by their exception class (messages are not modelled): one canonical PyErr per class
    pub uninterp spec fn canonical(e: PyExc) -> PyErr;
    pub broadcast proof fn axiom_canonical_exc(e: PyExc)
        ensures #[trigger] canonical(e).exc() == e
    { admit(); }
    pub broadcast group group_pyo3_axioms {
        axiom_canonical_exc,
    }
    impl PyErr {
        pub uninterp spec fn exc(&self) -> PyExc;
        #[verifier::external_body]
        pub fn to_string(&self) -> String { unimplemented!() }
    }

    // conversion of Rust values into Python objects: each implementor states WHAT object results (ghost)
    pub trait IntoPyObject<'py>: Sized {
        type Target;
        type Output;
        type Error;
        // ghost: the object this value becomes, and whether the conversion is defined for it at all
        spec fn spec_py(&self) -> PyVal;
        spec fn convertible(&self) -> bool;
        fn into_pyobject(self, py: Python<'py>) -> (r: Result<Bound<'py, PyAny>, SnmpError>)
            requires self.convertible()
            ensures r is Ok ==> r->Ok_0.pv() == self.spec_py();
    }

    pub mod types {
        use vstd::prelude::*;
        use super::{Bound, PyAny, PyErr, PyResult, PyVal, Python, IntoPyObject};
        pub struct PyNone;
        pub struct PyTuple;
        pub struct PyList;
        pub struct PyDict;
        pub struct PyBytes;
        pub struct PyString;
        pub struct PyBool;
        impl PyNone {
            #[verifier::external_body]
            pub fn get<'py>(py: Python<'py>) -> (r: Bound<'py, PyNone>)
                ensures r.pv() == PyVal::None
            { unimplemented!() }
        }
        pub open spec fn pvs<'py>(v: Seq<Bound<'py, PyAny>>) -> Seq<PyVal> {
            Seq::new(v.len(), |i: int| v[i].pv())
        }
        impl PyTuple {
            #[verifier::external_body]
            pub fn new<'py>(py: Python<'py>, elements: Vec<Bound<'py, PyAny>>) -> (r: PyResult<Bound<'py, PyTuple>>)
                ensures r is Ok ==> r->Ok_0.pv() == PyVal::Tuple(pvs(elements@))
            { unimplemented!() }
        }
        impl PyList {
            #[verifier::external_body]
            pub fn empty<'py>(py: Python<'py>) -> (r: Bound<'py, PyList>)
                ensures r.pv() == PyVal::List(Seq::<PyVal>::empty())
            { unimplemented!() }
        }
        // list.append / dict.set_item mutate the Python object behind a handle. The op layer creates the list / dict, fills it
        // and returns it without sharing the handle in between, so the object's state is modelled as the ghost value of that
        // (unique) handle: the stand-ins take `&mut self` (the extraction makes the local binding `mut`, rule RW, listed).
        impl<'py> Bound<'py, PyList> {
            #[verifier::external_body]
            pub fn append<T>(&mut self, item: Bound<'py, T>) -> (r: PyResult<()>)
                // list.append can only fail on memory exhaustion (which aborts the interpreter): modelled as always succeeding
                ensures r is Ok, old(self).pv() matches PyVal::List(l) ==> final(self).pv() == PyVal::List(l.push(item.pv())),
            { unimplemented!() }
            #[verifier::external_body]
            pub fn is_empty(&self) -> (r: bool)
                ensures self.pv() matches PyVal::List(l) ==> r == (l.len() == 0)
            { unimplemented!() }
        }
        impl PyDict {
            #[verifier::external_body]
            pub fn new<'py>(py: Python<'py>) -> (r: Bound<'py, PyDict>)
                ensures r.pv() == PyVal::Dict(Seq::<(PyVal, PyVal)>::empty())
            { unimplemented!() }
        }
        impl<'py> Bound<'py, PyDict> {
            #[verifier::external_body]
            pub fn set_item<K: IntoPyObject<'py>, V: IntoPyObject<'py>>(&mut self, key: K, value: V) -> (r: PyResult<()>)
                requires key.convertible(), value.convertible()
                ensures r is Ok ==> (old(self).pv() matches PyVal::Dict(d) && final(self).pv() == PyVal::Dict(d.push((key.spec_py(), value.spec_py())))),
                        r is Err ==> final(self).pv() == old(self).pv(),
            { unimplemented!() }
        }
    }
    pub mod exceptions {
        use vstd::prelude::*;
        use super::{PyErr, PyExc};
        pub struct PyValueError;
        pub struct PyRuntimeError;
        pub struct PyStopAsyncIteration;
        pub struct PyNotImplementedError;
        pub struct PyBlockingIOError;
        pub struct PyOSError;
        pub struct PyTimeoutError;
        pub struct PyException;
        impl PyValueError {
            #[verifier::external_body]
            pub fn new_err<A>(args: A) -> (r: PyErr) ensures r == super::canonical(PyExc::ValueError) { unimplemented!() }
        }
        impl PyRuntimeError {
            #[verifier::external_body]
            pub fn new_err<A>(args: A) -> (r: PyErr) ensures r == super::canonical(PyExc::RuntimeError) { unimplemented!() }
        }
        impl PyStopAsyncIteration {
            #[verifier::external_body]
            pub fn new_err<A>(args: A) -> (r: PyErr) ensures r == super::canonical(PyExc::StopAsyncIteration) { unimplemented!() }
        }
        impl PyNotImplementedError {
            #[verifier::external_body]
            pub fn new_err<A>(args: A) -> (r: PyErr) ensures r == super::canonical(PyExc::NotImplementedError) { unimplemented!() }
        }
        impl PyBlockingIOError {
            #[verifier::external_body]
            pub fn new_err<A>(args: A) -> (r: PyErr) ensures r == super::canonical(PyExc::BlockingIOError) { unimplemented!() }
        }
        impl PyOSError {
            #[verifier::external_body]
            pub fn new_err<A>(args: A) -> (r: PyErr) ensures r == super::canonical(PyExc::OSError) { unimplemented!() }
        }
        impl PyTimeoutError {
            #[verifier::external_body]
            pub fn new_err<A>(args: A) -> (r: PyErr) ensures r == super::canonical(PyExc::TimeoutError) { unimplemented!() }
        }
    }
    pub mod pybacked {
        use vstd::prelude::*;
        #[verifier::external_body]
        pub struct PyBackedStr { _p: core::marker::PhantomData<u8> }
        impl PyBackedStr {
            // ghost: the text the caller passed
            pub uninterp spec fn spec_text(&self) -> &str;
            // <PyBackedStr as AsRef<str>>::as_ref / Deref: that text
            #[verifier::external_body]
            pub fn as_ref(&self) -> (r: &str)
                ensures r == self.spec_text()
            { unimplemented!() }
        }
    }
    pub mod prelude {
        pub use super::{Bound, IntoPyObject, PyAny, PyErr, PyObject, PyResult, Python};
    }
}
