// Stand-in for std::sync::{Arc, Mutex} as used by src/buf/pool.rs (property C03 / C17: pooled buffers are handed out
// empty). The mutex protects Vec<Buffer>; its LOCK INVARIANT is "every pooled buffer is empty": whoever pushes must
// show the buffer is empty (precondition of push), whoever pops may rely on it (postcondition of pop). That a popped
// element is one that was pushed earlier is the meaning of Vec behind a mutex (ASSUMED, std); poisoning (lock()
// returning Err after a panic in another thread) makes `.unwrap()` panic: out of scope, no property speaks of it.
pub mod sync {
    use vstd::prelude::*;
    use crate::buf::Buffer;

    #[verifier::external_body]
    #[verifier::reject_recursive_types(T)]
    pub struct Mutex<T> { _p: core::marker::PhantomData<T> }
    #[verifier::external_body]
    #[verifier::reject_recursive_types(T)]
    pub struct Arc<T> { _p: core::marker::PhantomData<T> }
    #[derive(Debug)]
    pub struct PoisonError;
    pub type LockResult<'a> = Result<PoolGuard<'a>, PoisonError>;
    #[verifier::external_body]
    pub struct PoolGuard<'a> { _p: core::marker::PhantomData<&'a u8> }

    impl Mutex<Vec<Buffer>> {
        // a new pool holds no buffers
        #[verifier::external_body]
        pub fn new(v: Vec<Buffer>) -> (r: Mutex<Vec<Buffer>>)
            requires v@.len() == 0
        { unimplemented!() }
    }
    impl<T> Arc<T> {
        #[verifier::external_body]
        pub fn new(v: T) -> (r: Arc<T>) { unimplemented!() }
        #[verifier::external_body]
        pub fn clone(this: &Arc<T>) -> (r: Arc<T>) { unimplemented!() }
    }
    impl Arc<Mutex<Vec<Buffer>>> {
        // Arc<Mutex<_>>::lock through Deref
        #[verifier::external_body]
        pub fn lock(&self) -> (r: LockResult<'_>)
            ensures r is Ok    // no poisoning: see the header
        { unimplemented!() }
    }
    impl<'a> PoolGuard<'a> {
        // Vec::pop through DerefMut: under the lock invariant a pooled buffer is empty
        #[verifier::external_body]
        pub fn pop(&mut self) -> (r: Option<Buffer>)
            ensures r matches Some(b) ==> b.view().len() == 0
        { unimplemented!() }
        // Vec::push through DerefMut: the lock invariant must be kept
        #[verifier::external_body]
        pub fn push(&mut self, b: Buffer)
            requires b.view().len() == 0
        { unimplemented!() }
    }
    // Option<Buffer>::unwrap_or_default: the contained buffer, or Buffer::default() (empty, src/buf/buffer.rs Default impl;
    // Kani harness proof_buffer_default_and_raw)
    #[verifier::external_body]
    pub fn unwrap_or_default(o: Option<Buffer>) -> (r: Buffer)
        ensures match o { Some(b) => r == b, None => r.view().len() == 0 }
    { unimplemented!() }
}
