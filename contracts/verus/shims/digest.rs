// Stand-in for the RustCrypto `digest::Digest` interface as gufo_snmp uses it, plus the two hash types.
// The hash functions themselves are TRUSTED (RustCrypto md-5 / sha1 + the repo's RFC test vectors): here a digest is an
// accumulator of the octets fed to it, and finalize() returns an UNINTERPRETED function of exactly those octets.
pub mod digest {
    use vstd::prelude::*;

    // anything update() accepts in this crate: &[u8], Vec<u8>, &&mut [u8]
    pub trait Feed {
        spec fn feed_view(&self) -> Seq<u8>;
    }
    impl Feed for &[u8] {
        open spec fn feed_view(&self) -> Seq<u8> { (*self)@ }
    }
    impl Feed for Vec<u8> {
        open spec fn feed_view(&self) -> Seq<u8> { self@ }
    }
    impl Feed for &&mut [u8] {
        open spec fn feed_view(&self) -> Seq<u8> { (**self)@ }
    }
    // further AsRef<[u8]> types a maintainer may hand to update() (the real parameter is `impl AsRef<[u8]>`)
    impl<const N: usize> Feed for [u8; N] {
        open spec fn feed_view(&self) -> Seq<u8> { self@ }
    }
    impl<const N: usize> Feed for &[u8; N] {
        open spec fn feed_view(&self) -> Seq<u8> { (*self)@ }
    }
    impl Feed for &Vec<u8> {
        open spec fn feed_view(&self) -> Seq<u8> { (*self)@ }
    }

    pub trait Digest: Sized {
        // ghost: everything fed so far
        spec fn fed(&self) -> Seq<u8>;
        // ghost: the hash function (uninterpreted) and its output size
        spec fn spec_hash(input: Seq<u8>) -> Seq<u8>;
        spec fn out_len() -> nat;

        fn new() -> (r: Self)
            ensures r.fed() == Seq::<u8>::empty();
        fn update<T: Feed>(&mut self, data: T)
            ensures final(self).fed() == old(self).fed() + data.feed_view();
        fn finalize(self) -> (r: Vec<u8>)
            ensures r@ == Self::spec_hash(self.fed()), r@.len() == Self::out_len();
    }
}
pub mod md5 {
    use vstd::prelude::*;
    use crate::digest::{Digest, Feed};
    #[verifier::external_body]
    pub struct Md5 { _p: core::marker::PhantomData<u8> }
    pub uninterp spec fn md5_fed(h: &Md5) -> Seq<u8>;
    pub uninterp spec fn md5(input: Seq<u8>) -> Seq<u8>;
    impl Digest for Md5 {
        open spec fn fed(&self) -> Seq<u8> { md5_fed(self) }
        open spec fn spec_hash(input: Seq<u8>) -> Seq<u8> { md5(input) }
        open spec fn out_len() -> nat { 16 }
        #[verifier::external_body]
        fn new() -> (r: Self) { unimplemented!() }
        #[verifier::external_body]
        fn update<T: Feed>(&mut self, data: T) { unimplemented!() }
        #[verifier::external_body]
        fn finalize(self) -> (r: Vec<u8>) { unimplemented!() }
    }
}
pub mod sha1 {
    use vstd::prelude::*;
    use crate::digest::{Digest, Feed};
    #[verifier::external_body]
    pub struct Sha1 { _p: core::marker::PhantomData<u8> }
    pub uninterp spec fn sha1_fed(h: &Sha1) -> Seq<u8>;
    pub uninterp spec fn sha1(input: Seq<u8>) -> Seq<u8>;
    impl Digest for Sha1 {
        open spec fn fed(&self) -> Seq<u8> { sha1_fed(self) }
        open spec fn spec_hash(input: Seq<u8>) -> Seq<u8> { sha1(input) }
        open spec fn out_len() -> nat { 20 }
        #[verifier::external_body]
        fn new() -> (r: Self) { unimplemented!() }
        #[verifier::external_body]
        fn update<T: Feed>(&mut self, data: T) { unimplemented!() }
        #[verifier::external_body]
        fn finalize(self) -> (r: Vec<u8>) { unimplemented!() }
    }
}
