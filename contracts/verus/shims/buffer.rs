// Abstract view of crate::buf::Buffer for the Verus units.
// The real type is `unsafe` pointer code over [MaybeUninit<u8>; 4080] (src/buf/buffer.rs); Verus does not
// see its body.  Every contract below is the Verus transcription of a contract that Kani proves on
// the real code (contracts/kani/buffer.rs, property C17); in Verus units they are ASSUMED.
//   view()            = data() : the octets pushed so far, front = most recently pushed
//   bm_from_end()     = MAX_SIZE - bookmark : distance of the bookmark from the end (stable under pushes)
pub mod buf {
    use vstd::prelude::*;
    use crate::error::{SnmpError, SnmpResult};

    pub const MAX_SIZE: usize = 4080;

    #[verifier::external_body]
    pub struct Buffer {
        _p: core::marker::PhantomData<u8>,
    }

    // X.690 §8.1.3 minimal definite length for v <= 65535, preceded by the identifier octet
    pub open spec fn tag_len_bytes(tag: u8, v: nat) -> Seq<u8> {
        if v < 128 { seq![tag, v as u8] }
        else if v < 256 { seq![tag, 0x81u8, v as u8] }
        else { seq![tag, 0x82u8, (v / 256) as u8, (v % 256) as u8] }
    }

    impl Buffer {
        pub uninterp spec fn view(&self) -> Seq<u8>;
        pub uninterp spec fn bm_from_end(&self) -> int;

        pub open spec fn wf(&self) -> bool { self.view().len() <= MAX_SIZE }

        #[verifier::external_body]
        pub fn free(&self) -> (r: usize)
            requires self.wf()
            ensures r == MAX_SIZE - self.view().len()
        { unimplemented!() }

        #[verifier::external_body]
        pub fn len(&self) -> (r: usize)
            requires self.wf()
            ensures r == self.view().len()
        { unimplemented!() }

        #[verifier::external_body]
        pub fn is_empty(&self) -> (r: bool)
            requires self.wf()
            ensures r == (self.view().len() == 0)
        { unimplemented!() }

        #[verifier::external_body]
        pub fn data(&self) -> (r: &[u8])
            requires self.wf()
            ensures r@ == self.view()
        { unimplemented!() }

        #[verifier::external_body]
        pub fn data_mut(&mut self) -> (r: &mut [u8])
            requires old(self).wf()
            ensures
                r@ == old(self).view(),
                final(self).view() == final(r)@,
                final(self).bm_from_end() == old(self).bm_from_end(),
        { unimplemented!() }

        #[verifier::external_body]
        pub fn set_bookmark(&mut self, delta: usize)
            requires old(self).wf(), delta <= old(self).view().len()
            ensures
                final(self).view() == old(self).view(),
                final(self).bm_from_end() == old(self).view().len() - delta,
        { unimplemented!() }

        // bookmark - pos: underflows unless the bookmark lies inside the current data
        #[verifier::external_body]
        pub fn get_bookmark(&self) -> (r: usize)
            requires self.wf(), 0 <= self.bm_from_end() <= self.view().len()
            ensures r == self.view().len() - self.bm_from_end()
        { unimplemented!() }

        // exposes `size` octets in front of the data whose content is arbitrary (never written)
        #[verifier::external_body]
        pub fn skip(&mut self, size: usize)
            requires old(self).wf()
            ensures
                final(self).wf(),
                final(self).view().len() == if old(self).view().len() + size > MAX_SIZE { MAX_SIZE as int } else { old(self).view().len() + size },
                final(self).view().subrange(final(self).view().len() - old(self).view().len(), final(self).view().len() as int) == old(self).view(),
                final(self).bm_from_end() == old(self).bm_from_end(),
        { unimplemented!() }

        #[verifier::external_body]
        pub fn push_u8(&mut self, v: u8) -> (r: SnmpResult<()>)
            requires old(self).wf()
            ensures
                final(self).wf(),
                final(self).bm_from_end() == old(self).bm_from_end(),
                r is Ok <==> old(self).view().len() < MAX_SIZE,
                r is Ok ==> final(self).view() == seq![v] + old(self).view(),
                r is Err ==> r == Err::<(), SnmpError>(SnmpError::OutOfBuffer) && final(self).view() == old(self).view(),
        { unimplemented!() }

        #[verifier::external_body]
        pub fn push(&mut self, chunk: &[u8]) -> (r: SnmpResult<()>)
            requires old(self).wf()
            ensures
                final(self).wf(),
                final(self).bm_from_end() == old(self).bm_from_end(),
                r is Ok <==> old(self).view().len() + chunk@.len() <= MAX_SIZE,
                r is Ok ==> final(self).view() == chunk@ + old(self).view(),
                r is Err ==> r == Err::<(), SnmpError>(SnmpError::OutOfBuffer) && final(self).view() == old(self).view(),
        { unimplemented!() }

        #[verifier::external_body]
        pub fn push_tag_len(&mut self, tag: u8, v: usize) -> (r: SnmpResult<()>)
            requires old(self).wf(), v <= 0xffff
            ensures
                final(self).wf(),
                final(self).bm_from_end() == old(self).bm_from_end(),
                r is Ok <==> old(self).view().len() + tag_len_bytes(tag, v as nat).len() <= MAX_SIZE,
                r is Ok ==> final(self).view() == tag_len_bytes(tag, v as nat) + old(self).view(),
                r is Err ==> r == Err::<(), SnmpError>(SnmpError::OutOfBuffer) && final(self).view() == old(self).view(),
        { unimplemented!() }

        #[verifier::external_body]
        pub fn push_tagged(&mut self, tag: u8, data: &[u8]) -> (r: SnmpResult<()>)
            requires old(self).wf()
            ensures
                final(self).wf(),
                final(self).bm_from_end() == old(self).bm_from_end(),
                r is Ok <==> old(self).view().len() + data@.len() + tag_len_bytes(tag, data@.len()).len() <= MAX_SIZE,
                r is Ok ==> final(self).view() == tag_len_bytes(tag, data@.len()) + data@ + old(self).view(),
                r is Err ==> r == Err::<(), SnmpError>(SnmpError::OutOfBuffer)
                    && (final(self).view() == old(self).view() || final(self).view() == data@ + old(self).view()),
        { unimplemented!() }

        #[verifier::external_body]
        pub fn reset(&mut self)
            ensures
                final(self).view() == Seq::<u8>::empty(),
                final(self).bm_from_end() == old(self).bm_from_end(),
        { unimplemented!() }
    }

    // Representation invariant pos <= MAX_SIZE: established by Default (pos = MAX_SIZE) and preserved by every method
    // (each Kani harness in contracts/kani/buffer.rs re-establishes it from an arbitrary state satisfying it); the
    // fields are private, so it holds for every Buffer value a Verus unit can see.
    pub broadcast proof fn axiom_buffer_wf(b: &Buffer)
        ensures #[trigger] b.view().len() <= MAX_SIZE
    { admit(); }
    pub broadcast group group_buffer_axioms {
        axiom_buffer_wf,
    }

    impl Default for Buffer {
        #[verifier::external_body]
        fn default() -> Buffer { unimplemented!() }
    }

    // impl Default for Buffer: empty, bookmark 0 (i.e. MAX_SIZE from the end)
    #[verifier::external_body]
    pub fn buffer_default() -> (r: Buffer)
        ensures r.view() == Seq::<u8>::empty(), r.bm_from_end() == MAX_SIZE
    { unimplemented!() }
}
