// Shim for the data types of nom 7.1 that the crate uses (nom-7.1.3/src/internal.rs).
// Data-only: no nom combinators are used by gufo_snmp.
pub mod nom {
    use vstd::prelude::*;
    pub enum Needed {
        Unknown,
        Size(usize),
    }
    impl Needed {
        // nom: `match NonZeroUsize::new(s.into()) { Some(sz) => Needed::Size(sz), None => Needed::Unknown }` — total.
        pub fn new(s: usize) -> (r: Needed) {
            if s == 0 { Needed::Unknown } else { Needed::Size(s) }
        }
    }
    pub enum Err<E> {
        Incomplete(Needed),
        Error(E),
        Failure(E),
    }
    pub type IResult<I, O, E> = Result<(I, O), Err<E>>;
}
