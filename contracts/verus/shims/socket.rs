// Opaque stand-ins for socket2::Socket and the few pyo3 names that the socket structs mention.
pub mod socket2 {
    use vstd::prelude::*;
    #[verifier::external_body]
    pub struct Socket { _p: core::marker::PhantomData<u8> }
}
pub mod pyo3 {
    use vstd::prelude::*;
    #[verifier::external_body]
    pub struct PyErr { _p: core::marker::PhantomData<u8> }
    pub type PyResult<T> = Result<T, PyErr>;
    // error.rs: impl From<SnmpError> for PyErr (exception class table; decided under C07) — opaque here
    impl From<crate::error::SnmpError> for PyErr {
        #[verifier::external_body]
        fn from(value: crate::error::SnmpError) -> PyErr { unimplemented!() }
    }
    impl vstd::std_specs::convert::FromSpecImpl<crate::error::SnmpError> for PyErr {
        open spec fn obeys_from_spec() -> bool { false }
        uninterp spec fn from_spec(value: crate::error::SnmpError) -> PyErr;
    }
    pub mod prelude {
        pub use super::{PyErr, PyResult};
    }
    pub mod pybacked {
        pub struct PyBackedStr;
    }
    pub mod types {
        pub struct PyBytes;
    }
}
