#!/usr/bin/env python3
"""Native demonstration for the defect repaired by the `fix:` commit "materialize the oids before the deferred send":
async SnmpSession.get_many(<one-shot iterable>) with a full send buffer (first send raises BlockingIOError) re-runs
`sender()`, whose `list(oids)` is then EMPTY: a GetRequest without varbinds is sent instead of the request asked for
(C03 / C08).  Usage: demo_async_get_many_generator.py <tree>; exit 0 when the request sent carries the three OIDs."""
import asyncio
import socket
import sys
import types

tree = sys.argv[1]
sys.path.insert(0, tree + "/src")
sent = []


class Sock:
    def __init__(self, *a):
        self.r, self.w = socket.socketpair()
        self.r.setblocking(False)
        self.w.setblocking(False)
        self.calls = 0

    def get_fd(self):
        return self.w.fileno()

    def send_get_many(self, oids):
        self.calls += 1
        if self.calls == 1:
            raise BlockingIOError   # kernel send buffer full: nothing was sent
        sent.append(list(oids))
        self.r.send(b"x")           # make the fd readable for the reply

    def recv_get_many(self):
        return {}


fast = types.ModuleType("gufo.snmp._fast")
for n in ("SnmpV1ClientSocket", "SnmpV2cClientSocket", "SnmpV3ClientSocket"):
    setattr(fast, n, type(n, (Sock,), {}))
fast.__getattr__ = lambda name: type(name, (Exception,), {})
sys.modules["gufo.snmp._fast"] = fast
from gufo.snmp.async_client.client import SnmpSession  # noqa: E402


async def main():
    s = SnmpSession("127.0.0.1", timeout=1.0)
    s._fd = s._sock.w.fileno()
    want = ["1.3.6.1.2.1.1.1.0", "1.3.6.1.2.1.1.3.0", "1.3.6.1.2.1.1.5.0"]
    try:
        await s.get_many(o for o in want)
    except Exception as e:  # noqa
        print("get_many raised", type(e).__name__, e)
    print("sent:", sent)
    return 0 if sent == [want] else 1

sys.exit(asyncio.run(main()))
