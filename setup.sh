#!/bin/bash
# Offline setup: nothing to download. Warm the Kani / cargo-test dependency caches so the first check is not slow.
cd "$(dirname "$0")"
export CARGO_NET_OFFLINE=true
python3 -c "import tomllib" || exit 1
verus --version >/dev/null || exit 1
python3 tools/warm_cache.py || true
exit 0
